#!/usr/bin/env python3
"""Generate a toolchain overlay (for `go build -overlay`) that makes Go map and
sync.Map iteration order a function of a seed the simulator sets per run.

Patched copies of four GOROOT files are written to <out>/goroot/ and an
overlay.json with absolute paths to <out>/overlay.json. Nothing in GOROOT is
modified. Needs -ldflags=-checklinkname=0 when linking.
"""
import json, os, sys

goroot, out = sys.argv[1], sys.argv[2]
os.makedirs(os.path.join(out, "goroot"), exist_ok=True)
replace = {}

def patch(rel, edits):
    src = os.path.join(goroot, "src", rel)
    s = open(src).read()
    for a, b in edits:
        if s.count(a) != 1:
            sys.exit("overlay/gen.py: pattern not found exactly once in %s: %r" % (rel, a))
        s = s.replace(a, b)
    dst = os.path.join(out, "goroot", rel.replace("/", "_"))
    open(dst, "w").write(s)
    replace[src] = dst

# map seeds and iterator offsets: constant per simulated run when the seed is set
patch("runtime/rand.go", [
    ("""func maps_rand() uint64 {
	return rand()
}""", """func maps_rand() uint64 {
	if s := verifMapSeed; s != 0 {
		return s
	}
	return rand()
}

// verifMapSeed is set by the deterministic simulator (via linkname) for the
// duration of one simulated run; 0 = normal randomised behaviour.
var verifMapSeed uint64

var verifTimerSeq uint32

var verifSelectSeq uint64"""),
    ("""func rand32() uint32 {""", """func rand32() uint32 {
	if s := verifMapSeed; s != 0 {
		return uint32(s)
	}"""),
])
# testing/synctest deliberately randomises the firing order of timers set for the
# same instant; under the simulator they fire in creation order instead (every
# fired goroutine parks at its first scheduling point, so the simulator's
# scheduler still explores all orders, but from its own seeded stream)
patch("runtime/time.go", [
    ("""			t.rand = cheaprand()""", """			if verifMapSeed != 0 {
				verifTimerSeq++
				t.rand = verifTimerSeq
			} else {
				t.rand = cheaprand()
			}"""),
])
# select with several ready cases picks one at random; under the simulator the poll order is a
# function of the run seed and of the number of selects executed so far
patch("runtime/select.go", [
    ("""		j := cheaprandn(uint32(norder + 1))""", """		var j uint32
		if verifMapSeed != 0 && getg().bubble != nil {
			verifSelectSeq++
			x := verifMapSeed + verifSelectSeq*0x9e3779b97f4a7c15
			x ^= x >> 31
			x *= 0xbf58476d1ce4e5b9
			x ^= x >> 29
			j = uint32(x>>33) % uint32(norder+1)
		} else {
			j = cheaprandn(uint32(norder + 1))
		}"""),
])
# sync.Map (HashTrieMap) seed from the same source
patch("internal/sync/hashtriemap.go", [
    ("//go:linkname runtime_rand runtime.rand", "//go:linkname runtime_rand internal/runtime/maps.rand"),
])
# fixed hash keys (per-process random keys would make iteration order differ between processes)
patch("runtime/alg.go", [
    ("""	for i := range key {
		key[i] = bootstrapRand()
	}""", """	for i := range key {
		key[i] = 0x9e3779b97f4a7c15 * uint64(i+1)
	}"""),
    ("""	for i := range hashkey {
		hashkey[i] = uintptr(bootstrapRand())
	}""", """	for i := range hashkey {
		hashkey[i] = uintptr(0x9e3779b97f4a7c15 * uint64(i+1))
	}"""),
])
# sync.Pool: per-P caches and GC victim handling make "which object does Get return" depend on
# the P a goroutine happens to run on and on collector timing; under the simulator a pool is a
# mutex-protected LIFO list (the repository's pooled buffers are not cleared before reuse, so the
# identity of the reused object is visible in the bytes sent)
patch("sync/pool.go", [
    ("""	New func() any
}""", """	New func() any

	verifMu   Mutex
	verifList []any
	verifReg  bool
}

// verifPools is switched on by the deterministic simulator (via linkname).
var verifPools bool

var (
	verifAllMu Mutex
	verifAll   []*Pool
)

// verifResetPools empties every pool of the process: pooled objects must not
// carry state from one simulated run into the next.
func verifResetPools() {
	verifAllMu.Lock()
	for _, p := range verifAll {
		p.verifMu.Lock()
		for i := range p.verifList {
			p.verifList[i] = nil
		}
		p.verifList = p.verifList[:0]
		p.verifMu.Unlock()
	}
	verifAllMu.Unlock()
}"""),
    ("""func (p *Pool) Put(x any) {
	if x == nil {
		return
	}""", """func (p *Pool) Put(x any) {
	if x == nil {
		return
	}
	if verifPools {
		p.verifMu.Lock()
		reg := !p.verifReg
		p.verifReg = true
		p.verifList = append(p.verifList, x)
		p.verifMu.Unlock()
		if reg {
			verifAllMu.Lock()
			verifAll = append(verifAll, p)
			verifAllMu.Unlock()
		}
		return
	}"""),
    ("""func (p *Pool) Get() any {""", """func (p *Pool) Get() any {
	if verifPools {
		var x any
		p.verifMu.Lock()
		if n := len(p.verifList); n > 0 {
			x = p.verifList[n-1]
			p.verifList[n-1] = nil
			p.verifList = p.verifList[:n-1]
		}
		p.verifMu.Unlock()
		if x == nil && p.New != nil {
			x = p.New()
		}
		return x
	}"""),
])
json.dump({"Replace": replace}, open(os.path.join(out, "overlay.json"), "w"), indent=1)
print("overlay: %d toolchain files patched" % len(replace))
