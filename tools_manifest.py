#!/usr/bin/env python3
"""Regenerates MANIFEST.json from the table below (kept in one place so that it stays valid)."""
import json, subprocess
props=[json.loads(l) for l in open('/verif/properties.jsonl')]
NOTE="Trusts the Go 1.26.8 runtime with testing/synctest, the build-time instrumenter (scheduling points in front of atomics/queue/map operations), the toolchain overlay that fixes map/timer tie order, and sequential consistency at scheduling-point granularity; sampling, not enumeration."
TECH="deterministic simulation: seeded cooperative scheduler over testing/synctest fake clock with fault injection; oracle over the recorded history; minimised replay file"
CHECKS={
"C01":("exploration","Seeded search over interleavings of senders, timers, exit signals, Kill and meta Start-return with the wake-up/sleep transitions of actors, supervisors, pools and meta-processes; every callback carries an overlap counter and a non-atomic update with a scheduling point inside."),
"C02":("exploration","Seeded search over interleavings of concurrent senders, the receiver's sleep/wake transitions, bounded mailboxes, fallback routing and delayed-send cancel races on the real node runtime; conservation oracle (accepted = handled exactly once, refused = never handled) plus the quiescent witness 'non-empty mailbox in state sleep'."),
"C03":("exploration","Numbered streams from several senders with mixed priorities/addressing modes plus exit signals, inspects, downs and log messages against a receiver parked inside its handlers; FIFO per (sender, class) and the priority-class rule are checked on the step-stamped history."),
"C04":("exploration","Link/unlink/monitor/demonitor sequences by several requesters on pid, name, alias and event of targets that concurrently unregister or terminate; reference relation model from returned results and step-stamped intervals; exactly-one notification with an allowed reason, none without a relation, request after disappearance must fail, overlapping request may fail or be notified."),
"C05":("fault_enumeration","Termination causes (handler error/normal/panic, Kill, exit from parent / non-parent, meta Start return, node stop graceful/forced) placed at drawn points of concurrent drivers for four target kinds; the scheduler explores the target state at which each cause lands; oracle: terminate once, last callback, reason in the set the issued causes allow."),
"C06":("exploration","Concurrent SpawnRegister/RegisterName/UnregisterName/resolve/terminate histories checked with porcupine against a sequential registry model (step-stamped intervals), identifier bursts checked for repeats, and a release audit at quiescence (listings, names, aliases, events, target manager as target and as requester)."),
"C07":("exploration","Interleaved calls with simulated-clock timeouts, late/duplicate/foreign/flooded replies, callee deaths and reference-counter cycling; oracle on (request id, reply serial) pairs: own reply or error, request seen at most once, reply consumed at most once."),
}
CHECKS.update({
"C08":("exploration","Supervisor specs (type x strategy x KeepOrder x Significant x auto-shutdown, 1-4 children) driven by event sequences (child exits with five reasons, Disable/Enable/StartChild, stranger exit signals); after each event the real supervisor (Children(), liveness, start counts, start order, observed stop order, own fate) is compared with an executable reference model written from the documented rules; an overlapping regime injects child exits back to back and checks order-independent facts."),
"C09":("exploration","Failure schedules on the simulated clock (bursts, near-period gaps, drips) against Intensity 1-5 / Period 1-6 s for all supervisor types; sliding-window reference decides after every failure whether the supervisor must still run or must have stopped everything with the 'restart intensity exceeded' reason."),
})
CHECKS.update({
"C17":("exploration","Applications (1-4 members, optional dependency) started 1-3 times in every mode, with failing Init, a member dying during start, concurrent member exits / kills and ApplicationStop / StopForce / StopWithTimeout calls from two clients; reference lifecycle model for start order, dependency order, callback counts, stop condition per mode, Terminate reason of this stop, state and restartability; a call that never returns is reported as a hang violation."),
})
CHECKS.update({
"C10":("fault_enumeration","Supervision trees (depth <= 3, <= 12 processes: supervisors of all types, pools, leaves, optionally under an application) hit by faults enumerated over which process x how (kill, error, panic, normal, shutdown) x when (during start-up, steady, back to back into an ongoing restart/shutdown) and ended by killing the root, ApplicationStop(Force) or graceful Node.Stop; orphan audit at quiescence, stop-returns-after and stop-must-return."),
"C19":("exploration","act.Pool with drawn size / worker mailbox / worker speed under concurrent numbered sends and calls, worker kills and panics, AddWorkers/RemoveWorkers; at-most-once handling, exact accounting without crashes, bounded loss with crashes, no loss for items sent after the last crash completed, sender/ref preservation, High-priority handled by the pool, ring size restored."),
})
CHECKS.update({
"C20":("exploration","Generated crontab specs (lists, ranges, steps, L, xL, x#n, both day fields) in four time zones, node started at drawn instants 2000-2004 (near sparse matches, month ends, 29 Feb, DST changes), minute timer run on the simulated clock for hours to days with jobs added/disabled/enabled/removed midway; fired minutes, MessageCron.Time and JobSchedule compared with an independent crontab evaluator; malformed specs must be rejected."),
})
CHECKS.update({
"C12":("exploration","Two real nodes over simulated TCP (random segmentation, pooled links with latency skew) exchanging typed payloads of boundary sizes with all compression settings, bounded and missing receivers and a peer message-size limit; send log vs receive log: exactly once, right addressee, true sender, payload equality, oversize refused at the sender, important-delivery results truthful."),
"C13":("exploration","Numbered streams between process pairs over pooled links with up to 1000x latency skew, segmentation, a single pooled link cut (re-dialled by the protocol) or stalled mid-stream, pid residues varied by filler spawns; per (sender, receiver, addressing mode) the received sequence must increase, nothing twice, nothing lost without a cut."),
})
CHECKS.update({
"C14":("fault_enumeration","Two real nodes over simulated TCP; observers hold links/monitors on a remote pid, name, alias, event and on the node, with a call or important send in flight; faults enumerated over kind (all links cut, one link cut, graceful stop, crash, crash+restart after 0.2-5 s, partition) x instant x target-terminated-before; exactly-one notification with 'no connection' or the remote reason, bounded completion of the in-flight request, connection survives a single link cut, identifiers of the previous incarnation refused and never delivered."),
})
CHECKS.update({
"C18":("exploration","One event (buffer 0-4, Notify on/off) with a producer, an optional second token holder and an intruder publishing concurrently while 1-4 consumers on the same and on a second node (simulated TCP) subscribe by link/monitor, unsubscribe and re-subscribe, and the producer unregisters or terminates; interval-based oracle for exactly-once in-order delivery after subscription, buffer replay, token enforcement, end notifications and start/stop notifications."),
})
CHECKS.update({
"C15":("exploration","Cookie matrix (node / acceptor / route cookies, limits, flags) between two real nodes over simulated TCP with agreement checks on both ends; an adversary without the cookie plays silence, garbage, truncation, oversized length, a forged handshake with made-up digests and byte-exact replays of recorded Hello/Introduce and Join transcripts followed by a forged message frame; permission histories (Enable/Disable Spawn and ApplicationStart with node lists) exercised by two peers against a reference table, including environment exposure."),
"C16":("exploration","A live three-node cluster with background traffic receives 1-8 units of mutated traffic (bit flips, truncation, length/type/order fields, splices, garbage, compressed envelopes with lying sizes, mutated handshakes) derived from frames captured in the same run and injected into a live link or a fresh dial; oracles: no process crash, quiescence within the step budget, bounded allocation per unit, bystander connection / stream / local processes unaffected, re-encode agreement of whatever still decodes."),
})

EXTRA={
"C01":" Target kinds include a behaviour written directly against gen.ProcessBehavior; Start of a meta-process may return or panic while a callback runs; Node.Kill may be aimed at a target that is still inside Init.",
"C03":" Receivers are actors, supervisors and pools (own traffic); plain Send runs next to SendWithPriority, and senders interleave High/Max-priority sends to a missing process (which fail) with their streams: the priority of a failed send must not leak into the next one.",
"C12":" Calls may be answered with SendResponseError and an error of the receiver's own.",
"C19":" With unbounded worker mailboxes the pool may never count an item as unhandled; one client may live on a second node; a worker may answer a call and terminate normally.",
"C02":" A second receiver may be in the middle of SpawnRegister (Init with scheduling points) while senders already address its name; a panic raised by repository code counts as a send that neither succeeded nor failed.",
"C04":" Scripted scenarios: name reuse by a successor, and relations taken on a name whose process is still inside its Init (which then fails or succeeds).",
"C05":" Observers include top-level trapping actors watching the registered name; every observer is notified exactly once.",
"C06":" Shared event names are claimed concurrently (same model), meta-processes of terminated owners are audited, a live owner's name must resolve to it, and a panic raised by repository code while resolving is a violation.",
"C07":" One case in four runs the callees on a second real node over the simulated network (latency, pooled links with skew, loss of one link); callees may use split handling (HandleCallName / HandleCallAlias).",
"C09":" Terminations that need no restart and DisableChild/EnableChild are mixed into the schedule and must not use up the allowance; Intensity / Period left 0 take the documented defaults.",
"C10":" With Node.Stop as the final action unrelated processes may spawn further processes while the stop is running.",
"C13":" SendWithPriority takes part in the streams; 30 simulated seconds after a link cut fresh processes spread over all pooled links write again and nothing of that may be lost.",
"C14":" Reverse relations (a local target watched from the remote node and by a local bystander), a watcher that subscribes again inside every node-down handler, important sends and late SendResponse / SendResponseError with identifiers of the old incarnation, the observers' node stopping its own network, an atom mapping on the connection for the target's name, a half-open connection (the peer loses power and its new incarnation dials in unnoticed); nodes start in different simulated seconds.",
"C15":" Plain and TLS acceptors (the adversary speaks TLS, replays at once and frame by frame, also a departed node's plain handshake against the TLS acceptor); requests that name a process of another peer as the parent; Acceptor.SetCookie / Network.SetCookie at run time; an adversary that trickles a valid prefix byte by byte; the two environment-exposure switches are drawn independently.",
"C16":" Also inflated counts in frames and in well-formed pre-authentication handshake values (nested arrays), frames cut short with a matching length field, and the offending connection must be closed or working again when the stream stayed in step; authenticated hostile peers on the dialling and on the accepting side (absurd pool sizes, cache holes, own name).",
"C17":" One case in four starts the application from a second node over the simulated network; dependencies may be loaded or already running; members may trap exit signals; ApplicationUnload races the other actions (it may only succeed when no member is registered).",
"C18":" Consumers on up to two further nodes, one of them with a message size limit that some publications exceed; a subscription that succeeded is notified exactly once when the event ends; half of the remote cases use pools of links with different latency; consumers may first try to subscribe before the event is registered.",
}
for k,v in EXTRA.items():
    lvl,txt=CHECKS[k]
    CHECKS[k]=(lvl,txt+v)
NA={"C11":"EDF round trip is a statement about a pure function of the value and an explicitly passed cache configuration: no schedule, clock, fault, crash point or second party is involved, so deterministic simulation with fault injection has nothing to decide (values sent through C12's simulated cluster exercise it incidentally; no C11 claim is derived from that)."}
def chk(pid):
    level,text=CHECKS[pid]
    return {"property_id":pid,"quick_cmd":f"./check {pid} --tier quick","thorough_cmd":f"./check {pid} --tier thorough",
    "evidence_file":f"/verif/evidence/{pid}.json","replay_cmd_template":f"./check {pid} --replay {{path}}","engine":"simkit",
    "level_claimed":{"category":level,"text":text,"design_ref":f"DESIGN.md §8 {pid}"},"level_note":NOTE,"technique":TECH}
ids=sorted(CHECKS)
commits=subprocess.run("git -C /repo log --format=%h --grep=^verif-hook".split(),capture_output=True,text=True).stdout.split()
m={"version":1,"setup_cmd":"./setup.sh",
 "hooks":{"guard":"verif","enable":"./check builds the instrumented worker: go1.26.8 test -c -tags verif -overlay <generated overlay.json> -ldflags=-checklinkname=0","baseline_off_cmd":"cd /repo && GOFLAGS=-mod=mod go test -vet=off -count=1 -timeout 25m ./...","source_commits":commits[::-1],"add_only":True},
 "engines":[{"name":"simkit","path":"/verif/sim","serves_properties":ids,"kind_free_text":"deterministic simulator: build-time source instrumentation (scheduling points), seeded cooperative scheduler over testing/synctest fake clock, toolchain overlay for map/timer order, simulated TCP, per-property workloads and oracles, minimiser and replay"}],
 "checks":[chk(p) for p in ids],
 "not_applicable":[{"property_id":p['id'],"reason":NA.get(p['id'],"check not built yet (work in progress)")} for p in props if p['id'] not in CHECKS],
 "notes":"See DESIGN.md. known_findings.json lists open and fixed findings; replays/known and replays/fixed hold their replay files."}
json.dump(m,open('/verif/MANIFEST.json','w'),indent=1)
print("manifest:",ids)
