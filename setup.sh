#!/bin/bash
# Offline setup: build the instrumenter, the instrumented worker binary and warm the Go build cache.
set -e
cd "$(dirname "$0")"
exec ./check build
