// check: driver of the deterministic-simulation checks.
//
//	check build                              build instrumenter output + worker binary
//	check <ID> [--tier quick|thorough]       explore seeds for one property
//	check <ID> --replay <file>               replay one failure file
//	check selftest [<ID>...]                 determinism self-test across processes and GOMAXPROCS
//
// Exit codes: 0 property held on everything explored (KNOWN-FINDING lines
// possible), 1 violation (a line "VIOLATION property=<id> replay=<path>"),
// 2 infrastructure trouble (build, watchdog, determinism, replay mismatch).
package main

import (
	"bufio"
	"bytes"
	"encoding/binary"
	"encoding/json"
	"fmt"
	"os"
	"os/exec"
	"path/filepath"
	"regexp"
	"sort"
	"strconv"
	"strings"
	"sync"
	"syscall"
	"time"
)

var (
	root  = envOr("VERIF_ROOT", "/verif")
	repo  = envOr("VERIF_REPO", "/repo")
	build = filepath.Join(root, ".build")
	goBin = envOr("VERIF_GO", "go1.26.8")
)

func envOr(k, d string) string {
	if v := os.Getenv(k); v != "" {
		return v
	}
	return d
}

func die(code int, format string, args ...any) {
	fmt.Fprintf(os.Stderr, "check: "+format+"\n", args...)
	os.Exit(code)
}

func goEnv() []string {
	env := os.Environ()
	env = append(env, "GOFLAGS=-mod=mod", "GOPROXY=off", "GOSUMDB=off", "GOTOOLCHAIN=local", "GOWORK=off")
	return env
}

func run(dir string, env []string, name string, args ...string) (string, error) {
	cmd := exec.Command(name, args...)
	cmd.Dir = dir
	cmd.Env = env
	out, err := cmd.CombinedOutput()
	return string(out), err
}

// doBuild regenerates the instrumented sources from the repository's current
// working tree and builds the worker binary.
func doBuild() {
	os.MkdirAll(build, 0o755)
	lock, err := os.OpenFile(filepath.Join(build, "lock"), os.O_CREATE|os.O_RDWR, 0o644)
	if err == nil {
		syscall.Flock(int(lock.Fd()), syscall.LOCK_EX)
		defer func() { syscall.Flock(int(lock.Fd()), syscall.LOCK_UN); lock.Close() }()
	}
	sim := filepath.Join(root, "sim")
	// go.sum of the harness module follows the repository's
	if b, err := os.ReadFile(filepath.Join(repo, "go.sum")); err == nil {
		cur, _ := os.ReadFile(filepath.Join(sim, "go.sum"))
		if !strings.Contains(string(cur), strings.TrimSpace(string(b))) {
			os.WriteFile(filepath.Join(sim, "go.sum"), append(b, cur...), 0o644)
		}
	}
	t0 := time.Now()
	if out, err := run(sim, goEnv(), goBin, "build", "-o", filepath.Join(build, "instr"), "./cmd/instr"); err != nil {
		die(2, "building instrumenter failed: %v\n%s", err, out)
	}
	gorootOut, err := run(sim, goEnv(), goBin, "env", "GOROOT")
	if err != nil {
		die(2, "go env GOROOT: %v\n%s", err, gorootOut)
	}
	ovDir := filepath.Join(build, "goroot_overlay")
	if out, err := run(root, os.Environ(), "python3", filepath.Join(root, "overlay", "gen.py"), strings.TrimSpace(gorootOut), ovDir); err != nil {
		die(2, "toolchain overlay generation failed: %v\n%s", err, out)
	}
	args := []string{"-repo", repo, "-out", filepath.Join(build, "instr_out"), "-extra", filepath.Join(ovDir, "overlay.json")}
	out, err := run(sim, goEnv(), filepath.Join(build, "instr"), args...)
	if err != nil {
		die(2, "instrumenting %s failed: %v\n%s", repo, err, out)
	}
	fmt.Print(out)
	bargs := []string{"test", "-c", "-tags", "verif", "-ldflags=-checklinkname=0", "-overlay", filepath.Join(build, "instr_out", "overlay.json"),
		"-o", filepath.Join(build, "sim.test"), "./props"}
	if out, err := run(sim, goEnv(), goBin, bargs...); err != nil {
		die(2, "building the worker from %s failed (the tree does not compile with hooks on?): %v\n%s", repo, err, out)
	}
	fmt.Printf("check: built worker from %s in %.1fs\n", repo, time.Since(t0).Seconds())
}

type job struct {
	Mode        string         `json:"mode"`
	Property    string         `json:"property"`
	Tier        string         `json:"tier"`
	VerifSeed   uint64         `json:"verif_seed"`
	Worker      int            `json:"worker"`
	Workers     int            `json:"workers"`
	BudgetS     float64        `json:"budget_s"`
	MaxRuns     int            `json:"max_runs"`
	MaxFailures int            `json:"max_failures"`
	DetEvery    int            `json:"det_every"`
	Out         string         `json:"out"`
	Hashes      string         `json:"hashes"`
	File        string         `json:"file"`
	FileOut     string         `json:"file_out"`
	DumpRuns    string         `json:"dump_runs"`
	Known       []knownFinding `json:"known"`
	Current     string         `json:"current"`
	WatchdogS   int            `json:"watchdog_s"`
	StartI      int            `json:"start_i"`
}

type workerResult struct {
	exit   int
	stderr string
	lines  []map[string]json.RawMessage
	raw    []string
}

func runWorker(j job, gomaxprocs int, timeout time.Duration) workerResult {
	jb, _ := json.Marshal(j)
	cmd := exec.Command(filepath.Join(build, "sim.test"), "-test.run", "^TestWorker$", "-test.timeout", "0", "-test.count", "1")
	cmd.Dir = filepath.Join(root, "sim", "props")
	cmd.Env = append(os.Environ(), "VERIF_JOB="+string(jb), fmt.Sprintf("GOMAXPROCS=%d", gomaxprocs), "GODEBUG=asyncpreemptoff=1")
	var stderr strings.Builder
	cmd.Stderr = &stderr
	cmd.Stdout = &stderr
	res := workerResult{}
	if err := cmd.Start(); err != nil {
		res.exit = 2
		res.stderr = err.Error()
		return res
	}
	done := make(chan error, 1)
	go func() { done <- cmd.Wait() }()
	select {
	case err := <-done:
		if err != nil {
			if ee, ok := err.(*exec.ExitError); ok {
				res.exit = ee.ExitCode()
			} else {
				res.exit = 2
			}
		}
	case <-time.After(timeout):
		cmd.Process.Signal(syscall.SIGQUIT)
		time.Sleep(2 * time.Second)
		cmd.Process.Kill()
		<-done
		res.exit = 4
	}
	res.stderr = stderr.String()
	if f, err := os.Open(j.Out); err == nil {
		sc := bufio.NewScanner(f)
		sc.Buffer(make([]byte, 1<<20), 1<<28)
		for sc.Scan() {
			var m map[string]json.RawMessage
			if json.Unmarshal(sc.Bytes(), &m) == nil {
				res.lines = append(res.lines, m)
				res.raw = append(res.raw, sc.Text())
			}
		}
		f.Close()
	}
	return res
}

func typ(m map[string]json.RawMessage) string {
	var s string
	json.Unmarshal(m["type"], &s)
	return s
}

type knownFinding struct {
	Property string `json:"property"`
	Class    string `json:"class"`
	Detail   string `json:"detail_regexp"`
	Status   string `json:"status"`
	What     string `json:"what"`
}

func loadKnown() []knownFinding {
	if os.Getenv("VERIF_IGNORE_KNOWN") != "" {
		return nil
	}
	b, err := os.ReadFile(envOr("VERIF_KNOWN_FILE", filepath.Join(root, "known_findings.json")))
	if err != nil {
		return nil
	}
	var k struct {
		Findings []knownFinding `json:"findings"`
	}
	if err := json.Unmarshal(b, &k); err != nil {
		die(2, "known_findings.json: %v", err)
	}
	return k.Findings
}

type violation struct {
	Class  string `json:"class"`
	Detail string `json:"detail"`
	Step   int    `json:"step"`
}

func matchKnown(kf []knownFinding, prop string, v violation) *knownFinding {
	for i, k := range kf {
		if k.Property != prop || k.Status != "open" || k.Class != v.Class {
			continue
		}
		if k.Detail == "" {
			return &kf[i]
		}
		if re, err := regexp.Compile(k.Detail); err == nil && re.MatchString(v.Detail) {
			return &kf[i]
		}
	}
	return nil
}

type summary struct {
	Worker      int               `json:"worker"`
	Runs        int               `json:"runs"`
	Steps       int64             `json:"steps"`
	SimTimeS    float64           `json:"sim_time_s"`
	WallS       float64           `json:"wall_s"`
	Nontrivial  int               `json:"nontrivial"`
	Probes      map[string]int    `json:"probes"`
	Faults      map[string]int    `json:"faults"`
	Modes       map[string]int    `json:"modes"`
	Labels      map[string]int    `json:"labels"`
	Passthrough int64             `json:"passthrough"`
	Tasks       int64             `json:"tasks"`
	MaxSteps    int               `json:"max_steps"`
	DetChecked  int               `json:"det_checked"`
	DetMismatch int               `json:"det_mismatch"`
	Samples     []json.RawMessage `json:"samples"`
	Failures    int               `json:"failures"`
	KnownSeen   map[string]int    `json:"known_seen"`
	NextI       int               `json:"next_i"`
	Poisoned    bool              `json:"poisoned"`
}

type propMeta struct {
	Level      string   `json:"level"`
	Rule       string   `json:"rule"`
	Nontrivial []string `json:"nontrivial"`
	Real       []string `json:"real"`
	Stub       []string `json:"stub"`
}

func getMeta(prop string) propMeta {
	cmd := exec.Command(filepath.Join(build, "sim.test"), "-test.run", "^TestMeta$", "-test.count", "1")
	cmd.Dir = filepath.Join(root, "sim", "props")
	tmp := filepath.Join(build, "tmp", prop+".meta.json")
	os.MkdirAll(filepath.Dir(tmp), 0o755)
	cmd.Env = append(os.Environ(), "VERIF_META="+prop, "VERIF_META_OUT="+tmp)
	out, err := cmd.CombinedOutput()
	if err != nil {
		die(2, "cannot read property metadata for %s: %v\n%s", prop, err, out)
	}
	var m propMeta
	b, _ := os.ReadFile(tmp)
	if json.Unmarshal(b, &m) != nil || m.Level == "" {
		die(2, "unknown property %s", prop)
	}
	return m
}

func main() {
	if len(os.Args) < 2 {
		die(2, "usage: check build | <ID> [--tier quick|thorough] [--replay file] | selftest [IDs]")
	}
	switch os.Args[1] {
	case "build":
		doBuild()
		return
	case "selftest":
		doBuild()
		os.Exit(selftest(os.Args[2:]))
	}
	prop := os.Args[1]
	tier := envOr("VERIF_TIER", "quick")
	replayFile := ""
	for i := 2; i < len(os.Args); i++ {
		switch os.Args[i] {
		case "--tier":
			i++
			tier = os.Args[i]
		case "--replay":
			i++
			replayFile = os.Args[i]
		default:
			die(2, "unknown argument %s", os.Args[i])
		}
	}
	if tier != "quick" && tier != "thorough" {
		die(2, "unknown tier %s", tier)
	}
	doBuild()
	if replayFile != "" {
		os.Exit(doReplay(prop, replayFile, true))
	}
	os.Exit(explore(prop, tier))
}

func tmpDir(prop string) string {
	d := filepath.Join(build, "tmp", fmt.Sprintf("%s-%d", prop, os.Getpid()))
	os.MkdirAll(d, 0o755)
	return d
}

// doReplay runs a replay file in a fresh worker process. Returns 1 when the
// recorded violation is reproduced.
func doReplay(prop, file string, verbose bool) int {
	abs, _ := filepath.Abs(file)
	td := tmpDir(prop + "-replay")
	defer os.RemoveAll(td)
	j := job{Mode: "replay", Property: prop, File: abs, Out: filepath.Join(td, "replay.jsonl"), WatchdogS: 20}
	res := runWorker(j, 1, 10*time.Minute)
	if res.exit == 2 && (strings.Contains(res.stderr, "panic:") || strings.Contains(res.stderr, "fatal error:")) {
		if b, err := os.ReadFile(abs); err == nil && strings.Contains(string(b), "/crash\"") {
			if verbose {
				fmt.Printf("replay %s: the worker process crashes again\n", file)
				fmt.Printf("VIOLATION property=%s replay=%s\n", prop, file)
			}
			return 1
		}
	}
	if res.exit == 3 {
		if b, err := os.ReadFile(abs); err == nil && strings.Contains(string(b), "/hang\"") {
			if verbose {
				fmt.Printf("replay %s: the run hangs again (watchdog after 20 s without progress)\n", file)
				fmt.Printf("VIOLATION property=%s replay=%s\n", prop, file)
			}
			return 1
		}
	}
	if res.exit != 0 || len(res.lines) == 0 {
		fmt.Fprintf(os.Stderr, "check: replay worker failed (exit %d)\n%s\n", res.exit, res.stderr)
		return 2
	}
	m := res.lines[len(res.lines)-1]
	if typ(m) == "infra" {
		fmt.Fprintf(os.Stderr, "check: replay: %s\n", res.raw[len(res.raw)-1])
		return 2
	}
	var reproduced, sameClass bool
	json.Unmarshal(m["reproduced"], &reproduced)
	json.Unmarshal(m["same_class"], &sameClass)
	if verbose {
		var v, exp violation
		json.Unmarshal(m["violation"], &v)
		json.Unmarshal(m["expected"], &exp)
		fmt.Printf("replay %s: expected %s: %s\n", file, exp.Class, exp.Detail)
		fmt.Printf("replay %s: observed %s: %s\n", file, v.Class, v.Detail)
		var ev []string
		json.Unmarshal(m["events"], &ev)
		for _, l := range ev {
			fmt.Println("  history:", l)
		}
	}
	if reproduced || sameClass {
		if verbose {
			rel := file
			fmt.Printf("VIOLATION property=%s replay=%s\n", prop, rel)
		}
		if reproduced {
			return 1
		}
		return 1
	}
	if verbose {
		fmt.Printf("replay %s: the recorded violation did not occur on this tree\n", file)
	}
	return 0
}

func explore(prop, tier string) int {
	t0 := time.Now()
	meta := getMeta(prop)
	seed := uint64(1)
	if s := os.Getenv("VERIF_SEED"); s != "" {
		v, err := strconv.ParseUint(s, 10, 64)
		if err != nil {
			if iv, err2 := strconv.ParseInt(s, 10, 64); err2 == nil {
				v = uint64(iv)
			} else {
				die(2, "bad VERIF_SEED %q", s)
			}
		}
		seed = v
	}
	workers := 16
	if s := os.Getenv("VERIF_WORKERS"); s != "" {
		workers, _ = strconv.Atoi(s)
	}
	budget := 40.0
	if tier == "thorough" {
		budget = 900
	}
	if s := os.Getenv("VERIF_BUDGET_S"); s != "" {
		budget, _ = strconv.ParseFloat(s, 64)
	}
	maxRuns := 0
	if s := os.Getenv("VERIF_MAX_RUNS"); s != "" {
		maxRuns, _ = strconv.Atoi(s)
	}
	td := tmpDir(prop)
	defer os.RemoveAll(td)
	kf := loadKnown()
	var openKnown []knownFinding
	for _, k := range kf {
		if k.Property == prop && k.Status == "open" {
			openKnown = append(openKnown, k)
		}
	}
	results := make([]workerResult, workers)
	var wg sync.WaitGroup
	for w := 0; w < workers; w++ {
		wg.Add(1)
		go func(w int) {
			defer wg.Done()
			// a worker that stops early only because a run (a known finding) left goroutines behind
			// is succeeded by a fresh process that continues its sequence of runs
			t0 := time.Now()
			startI := 0
			var acc workerResult
			for gen := 0; ; gen++ {
				left := budget - time.Since(t0).Seconds()
				if gen > 0 && left < 2 {
					break
				}
				j := job{Mode: "explore", Property: prop, Tier: tier, VerifSeed: seed, Worker: w, Workers: workers, BudgetS: left,
					MaxRuns: maxRuns, MaxFailures: 2, DetEvery: 25, Known: openKnown, Out: filepath.Join(td, fmt.Sprintf("w%d.g%d.jsonl", w, gen)),
					Hashes: filepath.Join(td, fmt.Sprintf("w%d.g%d.hashes", w, gen)), Current: filepath.Join(td, fmt.Sprintf("w%d.current", w)), StartI: startI}
				r := runWorker(j, 1, time.Duration(left*float64(time.Second))+10*time.Minute)
				acc.lines = append(acc.lines, r.lines...)
				acc.raw = append(acc.raw, r.raw...)
				acc.exit, acc.stderr = r.exit, r.stderr
				again := false
				if r.exit == 0 {
					for i, m := range r.lines {
						if typ(m) == "summary" {
							var s summary
							json.Unmarshal([]byte(r.raw[i]), &s)
							if s.Poisoned && s.Failures == 0 && s.NextI > startI {
								again, startI = true, s.NextI
							}
						}
					}
				}
				if !again {
					break
				}
			}
			results[w] = acc
		}(w)
	}
	wg.Wait()

	// aggregate
	agg := summary{Probes: map[string]int{}, Faults: map[string]int{}, Modes: map[string]int{}, Labels: map[string]int{}, KnownSeen: map[string]int{}}
	var failures []json.RawMessage
	var hangs, crashes [][]byte
	infra := []string{}
	for w, r := range results {
		gotSummary := false
		for i, m := range r.lines {
			switch typ(m) {
			case "summary":
				var s summary
				json.Unmarshal([]byte(r.raw[i]), &s)
				gotSummary = true
				agg.Runs += s.Runs
				agg.Steps += s.Steps
				agg.SimTimeS += s.SimTimeS
				agg.Nontrivial += s.Nontrivial
				agg.Passthrough += s.Passthrough
				agg.Tasks += s.Tasks
				agg.DetChecked += s.DetChecked
				agg.DetMismatch += s.DetMismatch
				if s.MaxSteps > agg.MaxSteps {
					agg.MaxSteps = s.MaxSteps
				}
				for k, v := range s.Probes {
					agg.Probes[k] += v
				}
				for k, v := range s.Faults {
					agg.Faults[k] += v
				}
				for k, v := range s.Modes {
					agg.Modes[k] += v
				}
				for k, v := range s.Labels {
					agg.Labels[k] += v
				}
				for k, v := range s.KnownSeen {
					agg.KnownSeen[k] += v
				}
				agg.Samples = append(agg.Samples, s.Samples...)
			case "failure":
				failures = append(failures, m["failure"])
			case "infra":
				infra = append(infra, fmt.Sprintf("worker %d: %s", w, r.raw[i]))
			}
		}
		if r.exit == 2 && (crashIsViolation[prop] || crashRaisedInRepo(r.stderr)) && (strings.Contains(r.stderr, "panic:") || strings.Contains(r.stderr, "fatal error:")) {
			// the worker process died: a panic escaped the system under test
			if b, err := os.ReadFile(filepath.Join(td, fmt.Sprintf("w%d.current", w))); err == nil {
				var f map[string]any
				dec := json.NewDecoder(bytes.NewReader(b))
				dec.UseNumber() // 64-bit seeds must survive the round trip
				if dec.Decode(&f) == nil {
					first := r.stderr
					if i := strings.Index(first, "panic:"); i >= 0 {
						first = first[i:]
					} else if i := strings.Index(first, "fatal error:"); i >= 0 {
						first = first[i:]
					}
					if len(first) > 600 {
						first = first[:600]
					}
					f["violation"] = map[string]any{"class": prop + "/crash", "detail": "the process crashed while handling the run: " + first, "step": 0}
					nb, _ := json.Marshal(f)
					crashes = append(crashes, nb)
					continue
				}
			}
		}
		if r.exit == 3 && hangIsViolation[prop] {
			// the watchdog fired: a call of the system under test never returned
			if b, err := os.ReadFile(filepath.Join(td, fmt.Sprintf("w%d.current", w))); err == nil {
				hangs = append(hangs, b)
				continue
			}
		}
		if r.exit != 0 || !gotSummary {
			msg := fmt.Sprintf("worker %d exited with status %d without a summary", w, r.exit)
			st := r.stderr
			if len(st) > 6000 {
				st = st[:3000] + "\n...\n" + st[len(st)-3000:]
			}
			infra = append(infra, msg+"\n"+st)
		}
	}
	distinct := map[uint64]bool{}
	hashFiles, _ := filepath.Glob(filepath.Join(td, "w*.hashes"))
	for _, hf := range hashFiles {
		b, err := os.ReadFile(hf)
		if err != nil {
			continue
		}
		for i := 0; i+8 <= len(b); i += 8 {
			distinct[binary.LittleEndian.Uint64(b[i:])] = true
		}
	}

	wall := time.Since(t0).Seconds()
	fmt.Printf("check %s tier=%s seed=%d: %d simulated runs, %d scheduling decisions, %.1fs simulated, %d non-trivial, %d distinct non-trivial, %.1fs wall\n",
		prop, tier, seed, agg.Runs, agg.Steps, agg.SimTimeS, agg.Nontrivial, len(distinct), wall)

	exit := 0
	knownSeen := map[string]int{}
	for _, k := range openKnown {
		key := k.Class + "|" + k.Detail
		if n := agg.KnownSeen[key]; n > 0 {
			fmt.Printf("KNOWN-FINDING: property=%s %s (seen in %d runs)\n", prop, k.What, n)
			knownSeen[key] = n
		}
	}
	violations := 0
	replayDir := filepath.Join(root, "replays")
	os.MkdirAll(replayDir, 0o755)
	reported := map[string]bool{}
	for _, fraw := range failures {
		var f struct {
			RunIndex  uint64    `json:"run_index"`
			Violation violation `json:"violation"`
		}
		json.Unmarshal(fraw, &f)
		if k := matchKnown(kf, prop, f.Violation); k != nil {
			key := k.Class + "|" + k.Detail
			if knownSeen[key] == 0 {
				fmt.Printf("KNOWN-FINDING: property=%s %s\n", prop, k.What)
			}
			knownSeen[key]++
			continue
		}
		if reported[f.Violation.Class] && len(reported) > 0 {
			// one replay per class is enough
			violations++
			continue
		}
		// minimise in a fresh process
		in := filepath.Join(td, fmt.Sprintf("fail-%d.json", f.RunIndex))
		os.WriteFile(in, fraw, 0o644)
		outFile := filepath.Join(replayDir, fmt.Sprintf("%s-%d-%d.json", prop, seed, f.RunIndex))
		mj := job{Mode: "minimize", Property: prop, File: in, FileOut: outFile, Out: filepath.Join(td, fmt.Sprintf("min-%d.jsonl", f.RunIndex))}
		mr := runWorker(mj, 1, 15*time.Minute)
		ok := false
		for i, m := range mr.lines {
			switch typ(m) {
			case "minimized":
				ok = true
				fmt.Printf("check: minimised: %s\n", mr.raw[i])
			case "infra":
				infra = append(infra, "minimiser: "+mr.raw[i])
			}
		}
		if !ok {
			if mr.exit != 0 {
				infra = append(infra, fmt.Sprintf("minimiser exited with %d\n%s", mr.exit, mr.stderr))
			}
			continue
		}
		// the replay file must reproduce in a fresh process
		rc := doReplay(prop, outFile, false)
		if rc != 1 {
			infra = append(infra, fmt.Sprintf("replay file %s does not reproduce the violation in a fresh process (rc=%d)", outFile, rc))
			continue
		}
		var mf struct {
			Violation violation `json:"violation"`
		}
		b, _ := os.ReadFile(outFile)
		json.Unmarshal(b, &mf)
		if k := matchKnown(kf, prop, mf.Violation); k != nil {
			key := k.Class + "|" + k.Detail
			if knownSeen[key] == 0 {
				fmt.Printf("KNOWN-FINDING: property=%s %s\n", prop, k.What)
			}
			knownSeen[key]++
			os.Remove(outFile)
			continue
		}
		fmt.Printf("violation %s: %s\n", mf.Violation.Class, mf.Violation.Detail)
		fmt.Printf("VIOLATION property=%s replay=%s\n", prop, outFile)
		reported[mf.Violation.Class] = true
		violations++
		exit = 1
	}
	for ci, cb := range crashes {
		if ci > 0 {
			break
		}
		var f struct {
			RunIndex  uint64    `json:"run_index"`
			Violation violation `json:"violation"`
		}
		json.Unmarshal(cb, &f)
		outFile := filepath.Join(replayDir, fmt.Sprintf("%s-%d-%d-crash.json", prop, seed, f.RunIndex))
		os.WriteFile(outFile, cb, 0o644)
		if rc := doReplay(prop, outFile, false); rc != 1 {
			infra = append(infra, fmt.Sprintf("crash replay %s did not crash again (rc=%d)", outFile, rc))
			continue
		}
		fmt.Printf("violation %s: %s\n", f.Violation.Class, f.Violation.Detail)
		fmt.Printf("VIOLATION property=%s replay=%s\n", prop, outFile)
		violations++
		exit = 1
	}
	for hi, hb := range hangs {
		if hi > 0 {
			break // one hang replay is enough
		}
		var f struct {
			RunIndex uint64 `json:"run_index"`
		}
		json.Unmarshal(hb, &f)
		outFile := filepath.Join(replayDir, fmt.Sprintf("%s-%d-%d-hang.json", prop, seed, f.RunIndex))
		os.WriteFile(outFile, hb, 0o644)
		if rc := doReplay(prop, outFile, false); rc != 1 {
			infra = append(infra, fmt.Sprintf("hang replay %s did not hang again (rc=%d)", outFile, rc))
			continue
		}
		fmt.Printf("violation %s/hang: a call of the system under test never returned (self-deadlock outside the simulated clock); replaying the file hangs again and is cut by the watchdog\n", prop)
		fmt.Printf("VIOLATION property=%s replay=%s\n", prop, outFile)
		violations++
		exit = 1
	}
	if len(infra) > 0 {
		for _, s := range infra {
			fmt.Fprintf(os.Stderr, "check: INFRASTRUCTURE: %s\n", s)
		}
		if exit == 0 {
			exit = 2
		}
	}
	if agg.Runs == 0 && exit == 0 {
		fmt.Fprintln(os.Stderr, "check: no simulated run completed")
		exit = 2
	}

	writeEvidence(prop, tier, seed, meta, agg, len(distinct), wall, violations, knownSeen, budget, workers)
	return exit
}

// hangIsViolation: properties with a liveness clause (a stop / request must return).
var hangIsViolation = map[string]bool{"C10": true, "C14": true, "C17": true}

// crashIsViolation: properties for which a crashed worker process is itself a violation.
var crashIsViolation = map[string]bool{"C16": true}

// crashRaisedInRepo reads the trace of a worker process that died of a panic nobody recovered (or a
// fatal error of the runtime): true if the first frame of the crashing goroutine outside the Go
// runtime and standard library is code of the repository, not of the harness. Such a crash is a
// violation for every property (the workloads make legal calls only) - if its replay crashes again.
func crashRaisedInRepo(stderr string) bool {
	i := strings.Index(stderr, "panic:")
	if j := strings.Index(stderr, "fatal error:"); i < 0 || (j >= 0 && j < i) {
		i = j
	}
	if i < 0 {
		return false
	}
	tr := stderr[i:]
	if k := strings.Index(tr, "\ngoroutine "); k >= 0 {
		tr = tr[k+1:]
		// the first goroutine listed is the crashing one
		if k2 := strings.Index(tr, "\n\n"); k2 >= 0 {
			tr = tr[:k2]
		}
	}
	for _, ln := range strings.Split(tr, "\n") {
		ln = strings.TrimSpace(ln)
		if !strings.HasPrefix(ln, "/") {
			continue
		}
		if strings.Contains(ln, "/src/runtime/") || strings.Contains(ln, "/src/sync/") || strings.Contains(ln, "/src/internal/") || strings.Contains(ln, "/src/testing/") {
			continue
		}
		return strings.HasPrefix(ln, repo+"/") || strings.HasPrefix(ln, "/repo/") || strings.Contains(ln, "/instr_out/src/")
	}
	return false
}

func writeEvidence(prop, tier string, seed uint64, meta propMeta, agg summary, distinct int, wall float64, violations int,
	known map[string]int, budget float64, workers int) {
	zero := []string{}
	for _, p := range meta.Nontrivial {
		if agg.Probes[p] == 0 {
			zero = append(zero, p)
		}
	}
	sort.Strings(zero)
	type kv struct {
		K string
		V int
	}
	var labs []kv
	for k, v := range agg.Labels {
		labs = append(labs, kv{k, v})
	}
	sort.Slice(labs, func(i, j int) bool { return labs[i].V > labs[j].V || (labs[i].V == labs[j].V && labs[i].K < labs[j].K) })
	top := map[string]int{}
	for i := 0; i < len(labs) && i < 25; i++ {
		top[labs[i].K] = labs[i].V
	}
	samples := []any{}
	for i, s := range agg.Samples {
		if i >= 3 {
			break
		}
		samples = append(samples, s)
	}
	if len(samples) == 0 {
		samples = append(samples, "no run completed")
	}
	knownList := []string{}
	for k, v := range known {
		knownList = append(knownList, fmt.Sprintf("%s x%d", k, v))
	}
	sort.Strings(knownList)
	runsPerHour := 0.0
	if wall > 0 {
		runsPerHour = float64(agg.Runs) / wall * 3600
	}
	ev := map[string]any{
		"property_id": prop,
		"tier":        tier,
		"seed":        int64(seed & 0x7fffffffffffffff),
		"level":       meta.Level,
		"wall_s":      wall,
		"violations":  violations,
		"coverage": map[string]any{
			"evaluations":                 agg.Runs,
			"distinct_nontrivial":         distinct,
			"rule":                        meta.Rule,
			"samples":                     samples,
			"nontrivial_runs":             agg.Nontrivial,
			"scheduler_decisions":         agg.Steps,
			"max_decisions_in_one_run":    agg.MaxSteps,
			"goroutines_scheduled":        agg.Tasks,
			"simulated_time_s":            agg.SimTimeS,
			"runs_per_hour":               runsPerHour,
			"workers":                     workers,
			"budget_s":                    budget,
			"strategy_mix":                agg.Modes,
			"faults_injected":             agg.Faults,
			"probes":                      agg.Probes,
			"probes_never_hit":            zero,
			"gates_passed_under_lock":     agg.Passthrough,
			"hottest_scheduling_points":   top,
			"determinism_spot_checks":     agg.DetChecked,
			"determinism_mismatches":      agg.DetMismatch,
			"real_components":             meta.Real,
			"stubbed_components":          meta.Stub,
			"known_findings_seen":         knownList,
			"seed_derivation":             "run seed = H(VERIF_SEED, property id, run index); case, schedule and faults are drawn from streams derived from it",
			"distinct_measure":            "distinct (scheduler decision sequence hash XOR logical history hash) among non-trivial runs",
			"atomic_regions_not_explored": "code executed while a sync.Mutex/RWMutex is held (lib.Map.Range callbacks, target manager internals) runs without scheduling points",
		},
		"assumptions": []string{
			"interleavings are explored at the granularity of the instrumented scheduling points under sequential consistency",
			"Go 1.26.8 runtime with testing/synctest fake clock; repository compiled with its own language version",
			"sampling, not enumeration: a clean batch is evidence, not proof",
		},
	}
	evDir := filepath.Join(root, "evidence")
	if d := os.Getenv("VERIF_EVIDENCE_DIR"); d != "" {
		evDir = d // runs against deliberately broken trees must not overwrite the evidence of the real tree
	}
	os.MkdirAll(evDir, 0o755)
	b, _ := json.MarshalIndent(ev, "", " ")
	if err := os.WriteFile(filepath.Join(evDir, prop+".json"), b, 0o644); err != nil {
		fmt.Fprintf(os.Stderr, "check: cannot write evidence: %v\n", err)
	}
}

// selftest: every property workload, same seeds, several fresh processes,
// GOMAXPROCS 1 (twice), 4 and 16; per-run schedule and history hashes must be
// identical.
func selftest(ids []string) int {
	if len(ids) == 0 {
		b, _ := os.ReadFile(filepath.Join(root, "MANIFEST.json"))
		var m struct {
			Checks []struct {
				PropertyID string `json:"property_id"`
			} `json:"checks"`
		}
		json.Unmarshal(b, &m)
		for _, c := range m.Checks {
			ids = append(ids, c.PropertyID)
		}
	}
	runs := 48
	if s := os.Getenv("VERIF_SELFTEST_RUNS"); s != "" {
		runs, _ = strconv.Atoi(s)
	}
	rc := 0
	for _, prop := range ids {
		td := tmpDir(prop + "-selftest")
		type cfg struct {
			name string
			gmp  int
		}
		cfgs := []cfg{{"p1a", 1}, {"p1b", 1}, {"p4", 4}, {"p16", 16}}
		const nw = 4
		dumps := map[string]map[string]string{}
		var mu sync.Mutex
		var wg sync.WaitGroup
		for _, c := range cfgs {
			for w := 0; w < nw; w++ {
				wg.Add(1)
				go func(c cfg, w int) {
					defer wg.Done()
					dumpFile := filepath.Join(td, fmt.Sprintf("%s-w%d.dump", c.name, w))
					j := job{Mode: "explore", Property: prop, Tier: "quick", VerifSeed: 424242, Worker: w, Workers: nw, BudgetS: 3600,
						MaxRuns: runs, MaxFailures: 1000000, Out: filepath.Join(td, fmt.Sprintf("%s-w%d.jsonl", c.name, w)), DumpRuns: dumpFile}
					r := runWorker(j, c.gmp, 30*time.Minute)
					if r.exit != 0 {
						fmt.Fprintf(os.Stderr, "selftest %s %s worker %d: exit %d\n%s\n", prop, c.name, w, r.exit, r.stderr)
					}
					b, _ := os.ReadFile(dumpFile)
					mu.Lock()
					if dumps[c.name] == nil {
						dumps[c.name] = map[string]string{}
					}
					for _, l := range strings.Split(strings.TrimSpace(string(b)), "\n") {
						f := strings.SplitN(l, " ", 2)
						if len(f) == 2 {
							dumps[c.name][f[0]] = f[1]
						}
					}
					mu.Unlock()
				}(c, w)
			}
		}
		wg.Wait()
		defer os.RemoveAll(td)
		ref := dumps["p1a"]
		bad := 0
		for _, c := range cfgs[1:] {
			if len(dumps[c.name]) != len(ref) {
				fmt.Printf("selftest %s: %s produced %d runs, reference %d\n", prop, c.name, len(dumps[c.name]), len(ref))
				bad++
			}
			for k, v := range ref {
				if dumps[c.name][k] != v {
					if bad < 5 {
						fmt.Printf("selftest %s: run %s differs under %s: %q vs %q\n", prop, k, c.name, v, dumps[c.name][k])
						ki, _ := strconv.Atoi(k)
						a, _ := os.ReadFile(filepath.Join(td, fmt.Sprintf("p1a-w%d.dump.ev%s", ki%nw, k)))
						b, _ := os.ReadFile(filepath.Join(td, fmt.Sprintf("%s-w%d.dump.ev%s", c.name, ki%nw, k)))
						al, bl := strings.Split(string(a), "\n"), strings.Split(string(b), "\n")
						for i := 0; i < len(al) || i < len(bl); i++ {
							x, y := "<end>", "<end>"
							if i < len(al) {
								x = al[i]
							}
							if i < len(bl) {
								y = bl[i]
							}
							if x != y {
								lo := i - 3
								if lo < 0 {
									lo = 0
								}
								fmt.Printf("  first difference at history line %d\n  context: %v\n  p1a: %s\n  %s: %s\n", i, al[lo:i], x, c.name, y)
								if os.Getenv("VERIF_SELFTEST_ALLDIFF") == "" {
									break
								}
							}
						}
					}
					bad++
				}
			}
		}
		// warm against cold: runs that a worker executed after many others, executed once more alone
		// in a fresh process (same case, same scheduler specification), must come out the same -
		// otherwise a failure found during exploration does not replay
		cold := 0
		for k, v := range ref {
			ki, _ := strconv.Atoi(k)
			if ki < nw*(runs-6) || ki%nw > 1 {
				continue // the last runs of two workers
			}
			spec := filepath.Join(td, fmt.Sprintf("p1a-w%d.dump.spec%s", ki%nw, k))
			j := job{Mode: "replay", Property: prop, Tier: "quick", VerifSeed: 1, File: spec, Out: filepath.Join(td, fmt.Sprintf("cold-%s.jsonl", k))}
			r := runWorker(j, 1, 10*time.Minute)
			got := ""
			for i, m := range r.lines {
				if typ(m) == "replay" {
					var rec struct {
						Hashes string `json:"hashes"`
					}
					json.Unmarshal([]byte(r.raw[i]), &rec)
					got = rec.Hashes
				}
			}
			cold++
			if got != v {
				fmt.Printf("selftest %s: run %s executed alone in a fresh process differs from the same run executed by a worker after %d others: %q vs %q\n", prop, k, ki/nw, got, v)
				bad++
			}
		}
		if bad > 0 || len(ref) == 0 {
			fmt.Printf("selftest %s: FAILED (%d differences over %d runs)\n", prop, bad, len(ref))
			rc = 2
		} else {
			fmt.Printf("selftest %s: %d runs x 4 configurations (GOMAXPROCS 1,1,4,16; %d processes) identical; %d late runs identical when executed alone in a fresh process\n", prop, len(ref), len(cfgs)*nw, cold)
		}
	}
	return rc
}
