// instr: build-time instrumenter for the deterministic simulator.
//
// It reads the current working tree of the repository, inserts scheduling
// points (lib.VerifPoint) in front of every statement that performs an
// operation on shared state (atomics, sync.Map / lib.Map, MPSC queues, target
// manager, channel sends), marks mutex critical sections (lib.VerifLockEnter /
// lib.VerifLockExit) and gives every goroutine the repository starts a
// scheduling point as its first action. Insertions are done textually on the
// same line, so line numbers of the instrumented copy equal those of the
// original. The result is written to an output directory together with an
// overlay.json for `go build -overlay`; /repo itself is never modified.
package main

import (
	"encoding/json"
	"flag"
	"fmt"
	"go/ast"
	"go/parser"
	"go/token"
	"os"
	"path/filepath"
	"sort"
	"strings"
)

var (
	repo    = flag.String("repo", "/repo", "repository root")
	out     = flag.String("out", "", "output directory")
	extra   = flag.String("extra", "", "extra overlay json to merge (toolchain patches)")
	report  = flag.Bool("report", false, "print every instrumented site")
	pkgDirs = []string{"node", "act", "gen", "lib", "net/proto", "net/handshake", "app/system"}
)

// functions whose bodies are not instrumented (logging, env access: no
// property depends on their interleavings and they would only add noise).
var skipFuncs = map[string]bool{
	"dolog": true, "EnvList": true, "SetEnv": true, "Env": true, "EnvDefault": true,
	"LoggerAdd": true, "LoggerAddPID": true, "LoggerDelete": true, "LoggerDeletePID": true,
	"LoggerLevels": true, "Loggers": true, "validateLicenses": true, "Commercial": true,
}

var skipFiles = map[string]bool{
	"lib/verif_on.go": true, "lib/verif_off.go": true,
	"node/log.go":           true,
	"gen/default_logger.go": true,
	"gen/types.go":          true, // process-global CRC cache: first-use effects would differ between runs
}

var gateMethods = map[string]bool{
	"CompareAndSwap": true, "Swap": true,
	"LoadOrStore": true, "LoadAndDelete": true, "CompareAndDelete": true,
	"Store": true, "Delete": true, "Load": true, "Range": true, "RangeLock": true,
	"Push": true, "Pop": true, "Item": true,
	"AddLink": true, "RemoveLink": true, "AddMonitor": true, "RemoveMonitor": true,
	"HasLink": true, "HasMonitor": true,
	"CleanupTarget": true, "CleanupConsumer": true, "CleanupNode": true,
	"GetConsumersForTarget": true, "GetTargetsForConsumer": true,
}

var lockEnter = map[string]bool{"Lock": true, "RLock": true}
var lockExit = map[string]bool{"Unlock": true, "RUnlock": true}

type edit struct {
	off  int
	del  int
	text string
	seq  int
}

type fileInstr struct {
	fset   *token.FileSet
	rel    string
	prefix string // "lib." or ""
	edits  []edit
	nGate  int
	nLock  int
	nGo    int
	notes  []string
}

func (fi *fileInstr) add(off, del int, text string) {
	fi.edits = append(fi.edits, edit{off, del, text, len(fi.edits)})
}

func (fi *fileInstr) id(pos token.Pos) string {
	p := fi.fset.Position(pos)
	return fmt.Sprintf("%s:%d", fi.rel, p.Line)
}

func (fi *fileInstr) offset(pos token.Pos) int { return fi.fset.Position(pos).Offset }

func isMpscRecv(x ast.Expr) bool {
	if id, ok := x.(*ast.Ident); ok {
		return id.Name == "q" || id.Name == "queue"
	}
	return false
}

// mutexCall reports whether call is X.Lock()/RLock()/Unlock()/RUnlock() on
// something that is not an MPSC queue.
func mutexCall(e ast.Expr) (enter, exit bool) {
	call, ok := e.(*ast.CallExpr)
	if !ok || len(call.Args) != 0 {
		return
	}
	sel, ok := call.Fun.(*ast.SelectorExpr)
	if !ok {
		return
	}
	if isMpscRecv(sel.X) {
		return
	}
	return lockEnter[sel.Sel.Name], lockExit[sel.Sel.Name]
}

func isGateCall(call *ast.CallExpr) bool {
	sel, ok := call.Fun.(*ast.SelectorExpr)
	if !ok {
		return false
	}
	name := sel.Sel.Name
	if id, ok := sel.X.(*ast.Ident); ok && id.Name == "atomic" {
		return strings.HasPrefix(name, "CompareAndSwap") || strings.HasPrefix(name, "Swap") ||
			strings.HasPrefix(name, "Store")
	}
	if gateMethods[name] {
		return true
	}
	if (name == "Lock" || name == "Unlock") && isMpscRecv(sel.X) {
		return true
	}
	return false
}

// containsGate: does the expression/statement header contain a gate-site
// call or a channel send (function literal bodies are not entered).
func containsGate(n ast.Node) bool {
	if n == nil {
		return false
	}
	found := false
	ast.Inspect(n, func(x ast.Node) bool {
		if found {
			return false
		}
		switch t := x.(type) {
		case *ast.FuncLit:
			return false
		case *ast.BlockStmt:
			return false
		case *ast.CallExpr:
			if isGateCall(t) {
				found = true
				return false
			}
		case *ast.SendStmt:
			found = true
			return false
		}
		return true
	})
	return found
}

func headerHasGate(s ast.Stmt) bool {
	switch t := s.(type) {
	case *ast.IfStmt:
		if containsGate(t.Init) || containsGate(t.Cond) {
			return true
		}
		if e, ok := t.Else.(*ast.IfStmt); ok {
			return headerHasGate(e)
		}
		return false
	case *ast.ForStmt:
		return containsGate(t.Init) || containsGate(t.Cond) || containsGate(t.Post)
	case *ast.RangeStmt:
		return containsGate(t.X)
	case *ast.SwitchStmt:
		return containsGate(t.Init) || containsGate(t.Tag)
	case *ast.TypeSwitchStmt:
		return containsGate(t.Init) || containsGate(t.Assign)
	case *ast.SelectStmt:
		for _, c := range t.Body.List {
			cc := c.(*ast.CommClause)
			if cc.Comm != nil {
				if _, ok := cc.Comm.(*ast.SendStmt); ok {
					return true
				}
				if containsGate(cc.Comm) {
					return true
				}
			}
		}
		return false
	case *ast.BlockStmt:
		return false
	case *ast.LabeledStmt:
		return false // handled by caller
	case *ast.GoStmt:
		// arguments of the go call only
		for _, a := range t.Call.Args {
			if containsGate(a) {
				return true
			}
		}
		return false
	case *ast.DeferStmt:
		if _, ok := t.Call.Fun.(*ast.FuncLit); ok {
			return false
		}
		return containsGate(t.Call)
	default:
		return containsGate(s)
	}
}

func (fi *fileInstr) stmt(s ast.Stmt) {
	if ls, ok := s.(*ast.LabeledStmt); ok {
		fi.stmt(ls.Stmt)
		return
	}
	pfx := fi.prefix
	switch s.(type) {
	case *ast.CaseClause, *ast.CommClause:
		return // their bodies are visited as statement lists
	}
	// mutex statements
	switch t := s.(type) {
	case *ast.ExprStmt:
		enter, exit := mutexCall(t.X)
		if enter {
			fi.add(fi.offset(s.Pos()), 0, fmt.Sprintf("%sVerifPoint(%q);%sVerifLockEnter();", pfx, fi.id(s.Pos()), pfx))
			fi.nLock++
			fi.nGate++
			return
		}
		if exit {
			fi.add(fi.offset(s.End()), 0, fmt.Sprintf(";%sVerifLockExit()", pfx))
			fi.nLock++
			return
		}
	case *ast.DeferStmt:
		_, exit := mutexCall(t.Call)
		if exit {
			fi.add(fi.offset(s.Pos()), 0, fmt.Sprintf("defer %sVerifLockExit();", pfx))
			fi.nLock++
			return
		}
	case *ast.GoStmt:
		fi.goStmt(t)
	}
	if headerHasGate(s) {
		fi.add(fi.offset(s.Pos()), 0, fmt.Sprintf("%sVerifPoint(%q);", pfx, fi.id(s.Pos())))
		fi.nGate++
	}
	// a goroutine woken by a channel operation parks again at once, so that the waker and
	// the woken goroutine never run side by side outside the scheduler's control
	switch t := s.(type) {
	case *ast.ExprStmt, *ast.AssignStmt:
		if containsRecv(s) {
			fi.add(fi.offset(s.End()), 0, fmt.Sprintf(";%sVerifPoint(%q)", pfx, fi.id(s.Pos())+":rcv"))
			fi.nGate++
		}
	case *ast.SelectStmt:
		for _, c := range t.Body.List {
			cc := c.(*ast.CommClause)
			if cc.Comm != nil && containsRecv(cc.Comm) {
				fi.add(fi.offset(cc.Colon)+1, 0, fmt.Sprintf(" %sVerifPoint(%q);", pfx, fi.id(cc.Pos())+":rcv"))
				fi.nGate++
			}
		}
	}
}

func containsRecv(n ast.Node) bool {
	found := false
	ast.Inspect(n, func(x ast.Node) bool {
		if found {
			return false
		}
		switch t := x.(type) {
		case *ast.FuncLit:
			return false
		case *ast.UnaryExpr:
			if t.Op == token.ARROW {
				found = true
				return false
			}
		}
		return true
	})
	return found
}

func (fi *fileInstr) goStmt(g *ast.GoStmt) {
	pfx := fi.prefix
	id := fi.id(g.Pos()) + ":go"
	n := len(g.Call.Args)
	if n > 4 || g.Call.Ellipsis != token.NoPos {
		if fl, ok := g.Call.Fun.(*ast.FuncLit); ok {
			fi.add(fi.offset(fl.Body.Lbrace)+1, 0, fmt.Sprintf("%sVerifPoint(%q);", pfx, id))
			fi.nGo++
			return
		}
		fi.notes = append(fi.notes, fmt.Sprintf("%s: go statement not instrumented (%d args)", id, n))
		return
	}
	// go F(a, b) -> go lib.VerifGo2(lib.VerifSpawnID("id"), F, a, b); F may be a
	// function literal. VerifSpawnID is evaluated by the creating goroutine and
	// numbers the new goroutine in creation order (goroutine ids are not
	// monotonic across Ps).
	fi.add(fi.offset(g.Call.Fun.Pos()), 0, fmt.Sprintf("%sVerifGo%d(%sVerifSpawnID(%q), ", pfx, n, pfx, id))
	if n == 0 {
		fi.add(fi.offset(g.Call.Lparen), 1, "")
	} else {
		fi.add(fi.offset(g.Call.Lparen), 1, ", ")
	}
	fi.nGo++
}

func (fi *fileInstr) list(l []ast.Stmt) {
	for _, s := range l {
		fi.stmt(s)
	}
}

func (fi *fileInstr) walkFunc(body *ast.BlockStmt) {
	if body == nil {
		return
	}
	ast.Inspect(body, func(x ast.Node) bool {
		switch t := x.(type) {
		case *ast.BlockStmt:
			fi.list(t.List)
		case *ast.CaseClause:
			fi.list(t.Body)
		case *ast.CommClause:
			fi.list(t.Body)
		}
		return true
	})
}

func instrumentFile(root, rel string) ([]byte, *fileInstr, error) {
	path := filepath.Join(root, rel)
	src, err := os.ReadFile(path)
	if err != nil {
		return nil, nil, err
	}
	fset := token.NewFileSet()
	f, err := parser.ParseFile(fset, path, src, parser.SkipObjectResolution)
	if err != nil {
		return nil, nil, err
	}
	fi := &fileInstr{fset: fset, rel: rel, prefix: "veriflib."}
	if f.Name.Name == "lib" {
		fi.prefix = ""
	}
	for _, d := range f.Decls {
		fd, ok := d.(*ast.FuncDecl)
		if !ok {
			continue
		}
		if skipFuncs[fd.Name.Name] {
			continue
		}
		fi.walkFunc(fd.Body)
	}
	if len(fi.edits) == 0 {
		return nil, fi, nil
	}
	if fi.prefix != "" {
		// import on the package clause line keeps line numbers intact
		fi.add(fi.offset(f.Name.End()), 0, `; import veriflib "ergo.services/ergo/lib"`)
	}
	sort.Slice(fi.edits, func(i, j int) bool {
		if fi.edits[i].off != fi.edits[j].off {
			return fi.edits[i].off > fi.edits[j].off
		}
		return fi.edits[i].seq > fi.edits[j].seq
	})
	outb := append([]byte(nil), src...)
	for _, e := range fi.edits {
		tail := append([]byte(e.text), outb[e.off+e.del:]...)
		outb = append(outb[:e.off], tail...)
	}
	// sanity: must still parse
	if _, err := parser.ParseFile(token.NewFileSet(), path, outb, 0); err != nil {
		return nil, fi, fmt.Errorf("instrumented %s does not parse: %v", rel, err)
	}
	return outb, fi, nil
}

const spawnSrc = `//go:build verif

package lib

import (
	"strconv"
	"sync/atomic"
)

// VerifSpawnSeq numbers the goroutines started by instrumented go statements
// in creation order; reset by the simulator at the start of every run.
var VerifSpawnSeq atomic.Uint64

func VerifSpawnID(id string) string {
	return id + "#" + strconv.FormatUint(VerifSpawnSeq.Add(1), 10)
}
`

func main() {
	flag.Parse()
	if *out == "" {
		fmt.Fprintln(os.Stderr, "need -out")
		os.Exit(2)
	}
	overlay := map[string]string{}
	if *extra != "" {
		b, err := os.ReadFile(*extra)
		if err != nil {
			fmt.Fprintln(os.Stderr, err)
			os.Exit(2)
		}
		var ex struct{ Replace map[string]string }
		if err := json.Unmarshal(b, &ex); err != nil {
			fmt.Fprintln(os.Stderr, err)
			os.Exit(2)
		}
		for k, v := range ex.Replace {
			overlay[k] = v
		}
	}
	os.RemoveAll(filepath.Join(*out, "src"))
	totalG, totalL, totalGo, files := 0, 0, 0, 0
	for _, d := range pkgDirs {
		ents, err := os.ReadDir(filepath.Join(*repo, d))
		if err != nil {
			continue
		}
		for _, e := range ents {
			name := e.Name()
			if e.IsDir() || !strings.HasSuffix(name, ".go") || strings.HasSuffix(name, "_test.go") {
				continue
			}
			rel := filepath.ToSlash(filepath.Join(d, name))
			if skipFiles[rel] {
				continue
			}
			b, fi, err := instrumentFile(*repo, rel)
			if err != nil {
				fmt.Fprintln(os.Stderr, "instr:", err)
				os.Exit(2)
			}
			for _, n := range fi.notes {
				fmt.Fprintln(os.Stderr, "instr: note:", n)
			}
			if b == nil {
				continue
			}
			dst := filepath.Join(*out, "src", rel)
			os.MkdirAll(filepath.Dir(dst), 0o755)
			if err := os.WriteFile(dst, b, 0o644); err != nil {
				fmt.Fprintln(os.Stderr, err)
				os.Exit(2)
			}
			overlay[filepath.Join(*repo, rel)] = dst
			totalG += fi.nGate
			totalL += fi.nLock
			totalGo += fi.nGo
			files++
			if *report {
				fmt.Printf("%-32s gates=%d locks=%d go=%d\n", rel, fi.nGate, fi.nLock, fi.nGo)
			}
		}
	}
	// a file added to package lib (not present in the repository)
	{
		dst := filepath.Join(*out, "src", "lib", "zz_verif_spawn.go")
		os.MkdirAll(filepath.Dir(dst), 0o755)
		os.WriteFile(dst, []byte(spawnSrc), 0o644)
		overlay[filepath.Join(*repo, "lib", "zz_verif_spawn.go")] = dst
	}
	ob, _ := json.MarshalIndent(map[string]any{"Replace": overlay}, "", " ")
	if err := os.WriteFile(filepath.Join(*out, "overlay.json"), ob, 0o644); err != nil {
		fmt.Fprintln(os.Stderr, err)
		os.Exit(2)
	}
	fmt.Printf("instr: %d files, %d scheduling points, %d lock marks, %d goroutine entries\n", files, totalG, totalL, totalGo)
}
