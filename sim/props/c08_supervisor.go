package props

import (
	"fmt"
	"time"

	"verifsim/simkit"
)

// C08 Supervisor restart semantics by type and strategy.

type c08 struct{}

func init() { Register(c08{}) }

func (c08) ID() string    { return "C08" }
func (c08) Level() string { return "exploration" }
func (c08) NewCase() any  { return &SupCase{} }
func (c08) Nontrivial() []string {
	return []string{"restart-wave", "child-not-restarted", "supervisor-ended-by-rule", "management-call", "overlapping-events"}
}
func (c08) Rule() string {
	return "case = supervisor spec (type one-for-one / all-for-one / rest-for-one / simple-one-for-one x strategy x KeepOrder x per-child Significant x DisableAutoShutdown, 1-4 children) + " +
		"a sequence of events (child exits with reason normal/shutdown/error/kill/panic, DisableChild/EnableChild/StartChild, exit signals from a stranger). Separated regime: after every event the system is run to quiescence and " +
		"Children(), liveness of every child ever started, start counts, start order and (KeepOrder) stop order and the supervisor's own fate are compared with an executable reference model written from the documented rules. " +
		"Overlapping regime: events are injected back to back and only order-independent facts are required at the end (no child twice, Children() agrees with liveness, Permanent keeps every enabled child up, a dead supervisor leaves no child). " +
		"Non-trivial = at least one restart wave, rule-driven supervisor end, management call or overlapping injection happened; distinct = distinct (schedule, history) hashes."
}
func (c08) Components() ([]string, []string) {
	return []string{"act.Supervisor and its three state machines", "node spawn/link/exit-signal delivery"}, []string{"network disabled", "default logger disabled"}
}

func genSupCase(r *simkit.Rand, tier string, intensityStudy bool) *SupCase {
	c := &SupCase{
		Type:       simkit.Pick(r, "ofo", "afo", "afo", "rfo", "rfo", "sofo"),
		Strategy:   simkit.Pick(r, "transient", "temporary", "permanent"),
		KeepOrder:  r.Bool(),
		NoAutoStop: r.Chance(0.4),
		Intensity:  100,
		Period:     5,
	}
	nc := r.Range(1, 4)
	if c.Type == "sofo" {
		nc = r.Range(1, 2)
	}
	for i := 0; i < nc; i++ {
		c.Significant = append(c.Significant, c.Type != "sofo" && r.Chance(0.2))
	}
	ne := r.Range(2, 7)
	if tier == "thorough" {
		ne = r.Range(2, 12)
	}
	if intensityStudy {
		c.Strategy = simkit.Pick(r, "permanent", "transient")
		c.Intensity = r.Range(1, 5)
		c.Period = r.Range(1, 6)
		if r.Chance(0.3) {
			// periods far beyond what a test would wait for (the clock is simulated): 16-bit and
			// 32-bit millisecond boundaries included
			c.Period = simkit.Pick(r, 30, 60, 65, 66, 67, 100, 131, 300, 1000, 3600, 65535)
		}
		if r.Chance(0.15) {
			// one of the two left at its default
			if r.Bool() {
				c.Intensity = 0
			} else {
				c.Period = 0
			}
		}
		c.NoAutoStop = true
		for i := range c.Significant {
			c.Significant[i] = false
		}
		ne = r.Range(c.Intensity+1, 3*c.Intensity+4)
		if c.Intensity == 0 {
			ne = r.Range(6, 19)
		}
	}
	if c.Type == "sofo" {
		for i, n := 0, r.Range(1, 3); i < n; i++ {
			c.Events = append(c.Events, SupEvent{Kind: "sofostart", Child: r.Intn(nc)})
		}
	}
	for i := 0; i < ne; i++ {
		ev := SupEvent{Child: r.Intn(4), Reason: simkit.Pick(r, "normal", "shutdown", "error", "error", "kill", "panic")}
		switch k := r.Intn(20); {
		case intensityStudy:
			ev.Kind = "exit"
			ev.Reason = simkit.Pick(r, "error", "kill", "panic")
			if r.Chance(0.3) {
				// terminations that need no restart under Transient must not use up the allowance
				ev.Reason = simkit.Pick(r, "normal", "shutdown")
			}
			if c.Type == "sofo" && r.Chance(0.3) {
				ev.Kind = "sofostart" // keep instances coming: the ones that end normally are not replaced
			} else if r.Chance(0.12) {
				// children stopped by DisableChild are not restarts either
				ev.Kind = simkit.Pick(r, "disable", "enable")
			}
			// bursts, bursts separated by about a period, slow drips
			per, inten := c.Period*1000, c.Intensity
			if per == 0 {
				per = 5000
			}
			if inten == 0 {
				inten = 5
			}
			ev.GapMs = simkit.Pick(r, 1, 3, 17, per/inten-7, per/inten+13, per/2+3, per-11, per+19, 2*per+7)
			if ev.GapMs < 1 {
				ev.GapMs = 1
			}
		case k < 12:
			ev.Kind = "exit"
		case k < 14:
			ev.Kind = "disable"
		case k < 16:
			ev.Kind = "enable"
		case k < 18:
			ev.Kind = "start"
		case k < 19:
			ev.Kind = "stranger"
		default:
			ev.Kind = "exit"
		}
		if c.Type == "sofo" && ev.Kind == "start" {
			ev.Kind = "sofostart"
		}
		c.Events = append(c.Events, ev)
	}
	if !intensityStudy {
		c.Overlap = r.Chance(0.3)
	}
	if c.Overlap {
		// the overlapping regime is about several children dying / finishing termination in any
		// order; management calls are exercised in the separated regime only (a call issued while
		// the previous instance of the same child is still terminating has no documented meaning)
		for i := range c.Events {
			if k := c.Events[i].Kind; k != "exit" && k != "sofostart" {
				c.Events[i].Kind = "exit"
			}
		}
	}
	return c
}

func shrinkSupCase(c *SupCase) []any {
	var out []any
	for i := range c.Events {
		n := cloneJSON(c)
		n.Events = dropAt(n.Events, i)
		out = append(out, n)
	}
	if len(c.Significant) > 1 {
		n := cloneJSON(c)
		n.Significant = n.Significant[:len(n.Significant)-1]
		out = append(out, n)
	}
	if c.KeepOrder {
		n := cloneJSON(c)
		n.KeepOrder = false
		out = append(out, n)
	}
	return out
}

func (c08) Generate(r *simkit.Rand, tier string) any { return genSupCase(r, tier, false) }
func (c08) Shrink(c any) []any                       { return shrinkSupCase(c.(*SupCase)) }

// runSeparated drives the supervisor event by event and compares with the model.
func runSeparated(prop string, e *simkit.Env, c *SupCase) {
	r := startSupervisor(prop, e, c)
	if r == nil {
		return
	}
	defer simkit.StopNode(e, r.n, false, 0)
	m := newSupModel(c)
	total := time.Hour
	for _, ev := range c.Events {
		total += time.Duration(ev.GapMs)*time.Millisecond + time.Minute
	}
	e.SetSimLimit(total)
	e.Settle(time.Second)
	if !r.compare(m, "after start") {
		return
	}
	for k, ev := range c.Events {
		if !m.applicable(ev) {
			continue
		}
		if ev.GapMs > 0 {
			e.Sleep(time.Duration(ev.GapMs) * time.Millisecond)
		}
		from := e.Step()
		r.mu.Lock()
		obsFrom := len(r.observed)
		r.mu.Unlock()
		now := e.Now()
		i := ev.Child % m.n
		wasAlive := m.alive
		before := append([]int(nil), m.inc...)
		switch ev.Kind {
		case "exit":
			if c.Type == "sofo" {
				i = ev.Child % len(m.inst)
			}
			m.exit(i, ev.Reason, now)
		case "disable":
			m.disabled[i] = true
			if c.Type == "sofo" {
				// every running instance of the spec is stopped and none is started again
				var keep []int
				for _, sp := range m.inst {
					if sp != i {
						keep = append(keep, sp)
					}
				}
				m.inst = keep
			} else {
				m.exit(i, "shutdown", now)
			}
			e.Probe("management-call")
		case "enable":
			m.disabled[i] = false
			if c.Type != "sofo" {
				m.running[i] = true
				m.inc[i]++
			}
			e.Probe("management-call")
		case "start":
			m.running[i] = true
			m.inc[i]++
			e.Probe("management-call")
		case "sofostart":
			m.inst = append(m.inst, i)
			m.inc[i]++
			e.Probe("management-call")
		case "stranger":
			m.stopAll(ev.Reason)
		}
		if !r.inject(ev, m) {
			e.Fail(prop+"/unexpected-failure", "event %d (%s c%d) could not be delivered although the target should exist", k, ev.Kind, i)
			return
		}
		e.Settle(2 * time.Second)
		if m.ambiguous {
			return // a failure fell exactly on the period boundary: the property does not say which side counts
		}
		after := fmt.Sprintf("after event %d (%s c%d %s)", k, ev.Kind, i, ev.Reason)
		if !r.compare(m, after) {
			return
		}
		// start/stop order is a statement about restart waves (the supervisor keeps running)
		if m.alive && !r.waveOrder(from, obsFrom, after) {
			return
		}
		restarted := 0
		for j := range before {
			if m.inc[j] > before[j] {
				restarted++
			}
		}
		switch {
		case ev.Kind == "exit" && restarted > 0:
			e.Probe("restart-wave")
		case ev.Kind == "exit" && m.alive:
			e.Probe("child-not-restarted")
		}
		if wasAlive && !m.alive {
			e.Probe("supervisor-ended-by-rule")
			return
		}
	}
}

// runOverlapping injects all events back to back and checks order-independent facts.
func runOverlapping(prop string, e *simkit.Env, c *SupCase) {
	r := startSupervisor(prop, e, c)
	if r == nil {
		return
	}
	defer simkit.StopNode(e, r.n, false, 0)
	m := newSupModel(c) // only used to pick targets that exist
	e.Settle(time.Second)
	e.Probe("overlapping-events")
	for _, ev := range c.Events {
		if ev.Kind == "stranger" {
			continue
		}
		r.inject(ev, m)
		e.Gate("harness:between-events")
	}
	e.Settle(10 * time.Second)
	alive := r.supAlive()
	live := r.liveRecs()
	if !alive {
		if len(live) > 0 {
			e.Fail(prop+"/child-outlives-supervisor", "%s/%s overlapping events: supervisor is gone but c%d #%d is still running", c.Type, c.Strategy, live[0].spec, live[0].inc)
		}
		return
	}
	snap := r.children()
	if snap == nil {
		e.Fail(prop+"/supervisor-unresponsive", "%s/%s overlapping events: the running supervisor did not answer a Children() request", c.Type, c.Strategy)
		return
	}
	if c.Type == "sofo" {
		if len(snap) != len(live) {
			e.Fail(prop+"/children-stale", "sofo/%s overlapping events: Children() lists %d children, %d are alive", c.Strategy, len(snap), len(live))
		}
		return
	}
	bySpec := map[int]int{}
	for _, x := range live {
		bySpec[x.spec]++
	}
	for i := range c.Significant {
		if bySpec[i] > 1 {
			e.Fail(prop+"/child-runs-twice", "%s/%s overlapping events: %d instances of c%d are running", c.Type, c.Strategy, bySpec[i], i)
			return
		}
		for _, sc := range snap {
			if sc.Spec != childName(i) {
				continue
			}
			listed := sc.PID.ID != 0
			if listed != (bySpec[i] == 1) {
				e.Fail(prop+"/children-stale", "%s/%s overlapping events: Children() lists c%d as running=%v but %d instance(s) are alive (a termination went unnoticed or a child was lost)", c.Type, c.Strategy, i, listed, bySpec[i])
				return
			}
			if c.Strategy == "permanent" && !sc.Disabled && bySpec[i] != 1 {
				e.Fail(prop+"/permanent-child-down", "%s/permanent overlapping events: enabled child c%d is not running at quiescence", c.Type, i)
				return
			}
		}
	}
}

func (c08) Run(e *simkit.Env, cc any) {
	c := cc.(*SupCase)
	if c.Overlap {
		runOverlapping("C08", e, c)
	} else {
		runSeparated("C08", e, c)
	}
}
