package props

import (
	"errors"
	"fmt"
	"sync"
	"time"

	"ergo.services/ergo/gen"

	"verifsim/simkit"
)

// C04 Links and monitors: exactly one notification when the target goes away.

type C04Op struct {
	// requester ops: link | unlink | monitor | demonitor (on What of target T)
	// target ops (executed by the target itself): unregname | delalias | unregevent | die | normal
	// client ops: kill (target T) | unregname-node (target T)
	Op   string `json:"op"`
	T    int    `json:"t"`
	What string `json:"what,omitempty"` // pid | name | alias | event
}

type C04Actor struct {
	Role string  `json:"role"` // requester | target | client
	Ops  []C04Op `json:"ops"`
}

type C04Case struct {
	Targets int        `json:"targets"`
	Actors  []C04Actor `json:"actors"`
	// SpawnLink: requester 0 spawns a child with LinkChild that dies at once (0 none, 1 dies on a later kill, 2 dies immediately)
	SpawnLink int `json:"spawn_link"`
	// Reuse (> 0): instead of the general workload, the name-reuse scenario: a named process terminates
	// (1 handler error, 2 kill), a successor claims the name as soon as it is free and a third process
	// links (odd) or monitors (even variant: Reuse+2) that name once the successor owns it
	Reuse int `json:"reuse,omitempty"`
	// Born (> 0): the name-being-born scenario: a process is being spawned under a registered name (its
	// Init has scheduling points) while 1-2 requesters link (odd) or monitor (even) that name; the Init
	// fails (1, 2) or succeeds and the process is killed later (3, 4)
	Born int `json:"born,omitempty"`
}

type c04 struct{}

func init() { Register(c04{}) }

func (c04) ID() string    { return "C04" }
func (c04) Level() string { return "exploration" }
func (c04) NewCase() any  { return &C04Case{} }
func (c04) Nontrivial() []string {
	return []string{"relation-notified", "request-overlapped-disappearance", "relation-removed-before-disappearance", "request-on-gone-target-refused"}
}
func (c04) Rule() string {
	return "case = 1-3 targets (each with a registered name, an alias and an event) + 1-3 trapping requester actors running link/unlink/monitor/demonitor sequences on pid, name, alias and event of the targets, " +
		"(one case in ten: a requester relates to a name whose process is still inside its Init, which then fails or succeeds) concurrently with the targets unregistering their name / alias / event or terminating (handler error, normal) and clients killing them or unregistering names through the node; optionally a child spawned with LinkChild that dies at once. " +
		"Reference model built from returned results and step-stamped intervals: a relation that was fully established before the target went away and not removed yields exactly one exit/down naming that target with an allowed reason; " +
		"a request that overlapped the disappearance may fail or be notified; a request after the target is gone must fail; no relation, no notification. " +
		"Non-trivial = at least one relation was notified, overlapped or was removed in time; distinct = distinct (schedule, history) hashes."
}
func (c04) Components() ([]string, []string) {
	return []string{"node RouteLink*/RouteMonitor*/RouteTerminate*, unregisterProcess, UnregisterName, DeleteAlias, unregisterEvent", "gen default target manager", "act.Actor exit trapping"},
		[]string{"network disabled", "default logger disabled"}
}

func (c04) Generate(r *simkit.Rand, tier string) any {
	if r.Chance(0.12) {
		return &C04Case{Targets: 1, Reuse: r.Range(1, 4)}
	}
	if r.Chance(0.1) {
		return &C04Case{Targets: 1, Born: r.Range(1, 4)}
	}
	c := &C04Case{Targets: r.Range(1, 3)}
	nreq := r.Range(1, 3)
	maxOps := 5
	if tier == "thorough" {
		maxOps = 8
	}
	for i := 0; i < nreq; i++ {
		a := C04Actor{Role: "requester"}
		for j, n := 0, r.Range(1, maxOps); j < n; j++ {
			a.Ops = append(a.Ops, C04Op{Op: simkit.Pick(r, "link", "link", "monitor", "monitor", "unlink", "demonitor"),
				T: r.Intn(c.Targets), What: simkit.Pick(r, "pid", "pid", "name", "alias", "event")})
		}
		c.Actors = append(c.Actors, a)
	}
	for t := 0; t < c.Targets; t++ {
		a := C04Actor{Role: "target"}
		for j, n := 0, r.Range(0, 3); j < n; j++ {
			a.Ops = append(a.Ops, C04Op{Op: simkit.Pick(r, "unregname", "delalias", "unregevent", "die", "normal", "delspare"), T: t})
		}
		c.Actors = append(c.Actors, a)
	}
	for i, n := 0, r.Range(0, 2); i < n; i++ {
		a := C04Actor{Role: "client"}
		for j, m := 0, r.Range(1, 2); j < m; j++ {
			a.Ops = append(a.Ops, C04Op{Op: simkit.Pick(r, "kill", "kill", "unregname-node"), T: r.Intn(c.Targets)})
		}
		c.Actors = append(c.Actors, a)
	}
	c.SpawnLink = simkit.Pick(r, 0, 0, 0, 1, 2)
	return c
}

func (c04) Shrink(cc any) []any {
	c := cc.(*C04Case)
	var out []any
	for i := range c.Actors {
		if c.Actors[i].Role != "target" {
			n := cloneJSON(c)
			n.Actors = dropAt(n.Actors, i)
			out = append(out, n)
		}
	}
	for i := range c.Actors {
		for j := range c.Actors[i].Ops {
			n := cloneJSON(c)
			n.Actors[i].Ops = dropAt(n.Actors[i].Ops, j)
			out = append(out, n)
		}
	}
	if c.SpawnLink != 0 {
		n := cloneJSON(c)
		n.SpawnLink = 0
		out = append(out, n)
	}
	return out
}

type c04Key struct {
	T    int
	What string
}

type c04Rel struct {
	add      bool
	inv, ret int
	err      error
}

type c04Gone struct {
	ds, de  int
	reasons []string
	set     bool
}

type c04Note struct {
	link   bool
	key    c04Key
	reason string
	step   int
}

func c04Reason(err error) string {
	switch {
	case err == nil:
		return "<nil>"
	case errors.Is(err, gen.ErrUnregistered):
		return "unregistered"
	}
	return reasonKey(err)
}

func (c04) Run(e *simkit.Env, cc any) {
	c := cc.(*C04Case)
	n := simkit.StartLocalNode(e, "c04@sim", nil)
	if n == nil {
		return
	}
	defer simkit.StopNode(e, n, false, 0)
	if c.Born > 0 {
		runC04Born(e, n, c)
		return
	}
	if c.Reuse > 0 {
		runC04Reuse(e, n, c)
		return
	}
	var mu sync.Mutex
	type tinfo struct {
		pid   gen.PID
		name  gen.Atom
		alias gen.Alias
		event gen.Atom
	}
	targets := make([]tinfo, c.Targets)
	gone := map[c04Key]*c04Gone{}
	markGone := func(k c04Key, ds, de int, reason string) {
		mu.Lock()
		g := gone[k]
		if g == nil {
			g = &c04Gone{}
			gone[k] = g
		}
		if !g.set || ds < g.ds {
			g.ds = ds
		}
		if !g.set || de > g.de {
			g.de = de
		}
		g.set = true
		g.reasons = append(g.reasons, reason)
		mu.Unlock()
	}
	// relations[requester][link?][key] -> ops
	type rkey struct {
		q    int
		link bool
		k    c04Key
	}
	rels := map[rkey][]c04Rel{}
	notes := map[int][]c04Note{} // requester -> notifications
	childPID := gen.PID{}
	var childSpawned, childLinkRet int

	keyOf := func(m any) (c04Key, bool, string, bool) {
		find := func(pred func(t tinfo) bool, what string) (c04Key, bool) {
			for i, t := range targets {
				if pred(t) {
					return c04Key{i, what}, true
				}
			}
			return c04Key{}, false
		}
		switch v := m.(type) {
		case gen.MessageExitPID:
			if v.PID == childPID && childPID != (gen.PID{}) {
				return c04Key{-1, "child"}, true, c04Reason(v.Reason), true
			}
			k, ok := find(func(t tinfo) bool { return t.pid == v.PID }, "pid")
			return k, true, c04Reason(v.Reason), ok
		case gen.MessageDownPID:
			k, ok := find(func(t tinfo) bool { return t.pid == v.PID }, "pid")
			return k, false, c04Reason(v.Reason), ok
		case gen.MessageExitProcessID:
			k, ok := find(func(t tinfo) bool { return t.name == v.ProcessID.Name }, "name")
			return k, true, c04Reason(v.Reason), ok
		case gen.MessageDownProcessID:
			k, ok := find(func(t tinfo) bool { return t.name == v.ProcessID.Name }, "name")
			return k, false, c04Reason(v.Reason), ok
		case gen.MessageExitAlias:
			k, ok := find(func(t tinfo) bool { return t.alias == v.Alias }, "alias")
			return k, true, c04Reason(v.Reason), ok
		case gen.MessageDownAlias:
			k, ok := find(func(t tinfo) bool { return t.alias == v.Alias }, "alias")
			return k, false, c04Reason(v.Reason), ok
		case gen.MessageExitEvent:
			k, ok := find(func(t tinfo) bool { return t.event == v.Event.Name }, "event")
			return k, true, c04Reason(v.Reason), ok
		case gen.MessageDownEvent:
			k, ok := find(func(t tinfo) bool { return t.event == v.Event.Name }, "event")
			return k, false, c04Reason(v.Reason), ok
		}
		return c04Key{}, false, "", false
	}

	// targets
	type actorRef struct {
		pid  gen.PID
		done chan struct{}
	}
	refs := make([]actorRef, len(c.Actors))
	ti := 0
	for ai, a := range c.Actors {
		if a.Role != "target" {
			continue
		}
		ai, a, t := ai, a, ti
		ti++
		h := &Hooks{Name: fmt.Sprintf("t%d", t), Env: e, Slow: true, Trap: true}
		var dieStart int
		var dieReason string
		var spare gen.Alias
		h.Message = func(p *Probe, from gen.PID, m any) error {
			switch m {
			case "setup":
				al, err := p.CreateAlias()
				if err != nil {
					e.Fail("C04/unexpected-failure", "CreateAlias: %v", err)
				}
				targets[t].alias = al
				// a second alias nobody relates to; deleting it must not affect the first
				if sp, err := p.CreateAlias(); err == nil {
					spare = sp
				}
				ev := gen.Atom(fmt.Sprintf("ev%d", t))
				if _, err := p.RegisterEvent(ev, gen.EventOptions{}); err != nil {
					e.Fail("C04/unexpected-failure", "RegisterEvent: %v", err)
				}
				targets[t].event = ev
			case "go":
				defer close(refs[ai].done)
				for _, op := range a.Ops {
					inv := e.Step()
					var err error
					switch op.Op {
					case "unregname":
						err = p.UnregisterName()
						if err == nil {
							markGone(c04Key{t, "name"}, inv, e.Step(), "unregistered")
						}
					case "delalias":
						err = p.DeleteAlias(targets[t].alias)
						if err == nil {
							markGone(c04Key{t, "alias"}, inv, e.Step(), "unregistered")
						}
					case "delspare":
						err = p.DeleteAlias(spare)
					case "unregevent":
						err = p.UnregisterEvent(targets[t].event)
						if err == nil {
							markGone(c04Key{t, "event"}, inv, e.Step(), "unregistered")
						}
					case "die":
						dieStart, dieReason = inv, fmt.Sprintf("boom%d", t)
						e.Logf("t%d dies (error)", t)
						return fmt.Errorf("boom%d", t)
					case "normal":
						dieStart, dieReason = inv, "normal"
						e.Logf("t%d dies (normal)", t)
						return gen.TerminateReasonNormal
					}
					e.Logf("t%d %s -> %v", t, op.Op, err)
				}
			}
			return nil
		}
		h.Terminate = func(p *Probe, reason error) {
			r := c04Reason(reason)
			ds := dieStart
			if dieReason == "" {
				// killed from outside: the kill op records the start itself
				ds = e.Step()
			}
			for _, what := range []string{"pid", "name", "alias", "event"} {
				markGone(c04Key{t, what}, ds, e.Step(), r)
			}
			e.Logf("t%d terminated reason=%s", t, r)
		}
		name := gen.Atom(fmt.Sprintf("tn%d", t))
		pid, err := n.SpawnRegister(name, ProbeFactory(h), gen.ProcessOptions{})
		if err != nil {
			e.Infra("spawn target: " + err.Error())
			return
		}
		targets[t].pid, targets[t].name = pid, name
		refs[ai] = actorRef{pid: pid, done: make(chan struct{})}
		n.Send(pid, "setup")
	}
	e.Settle(time.Millisecond)
	if e.Failed() {
		return
	}

	// requesters
	qi := 0
	for ai, a := range c.Actors {
		if a.Role != "requester" {
			continue
		}
		ai, a, q := ai, a, qi
		qi++
		h := &Hooks{Name: fmt.Sprintf("q%d", q), Env: e, Slow: true, Trap: true}
		h.Message = func(p *Probe, from gen.PID, m any) error {
			if m == "go" {
				defer close(refs[ai].done)
				if q == 0 && c.SpawnLink > 0 {
					ch := &Hooks{Name: "child", Env: e}
					if c.SpawnLink == 2 {
						ch.Init = func(cp *Probe, args ...any) error { return cp.Send(cp.PID(), "die") }
					}
					ch.Message = func(cp *Probe, from gen.PID, m any) error {
						if m == "die" {
							return fmt.Errorf("boomchild")
						}
						return nil
					}
					ch.Terminate = func(cp *Probe, reason error) {
						markGone(c04Key{-1, "child"}, childSpawned, e.Step(), c04Reason(reason))
					}
					childSpawned = e.Step()
					pid, err := p.Spawn(ProbeFactory(ch), gen.ProcessOptions{LinkChild: true})
					childLinkRet = e.Step()
					if err != nil {
						e.Fail("C04/unexpected-failure", "Spawn with LinkChild: %v", err)
						return nil
					}
					childPID = pid
					mu.Lock()
					rels[rkey{0, true, c04Key{-1, "child"}}] = []c04Rel{{add: true, inv: childSpawned, ret: childLinkRet}}
					mu.Unlock()
					if c.SpawnLink == 1 {
						p.Send(pid, "die")
					}
				}
				for _, op := range a.Ops {
					tt := targets[op.T]
					var tgt any
					switch op.What {
					case "pid":
						tgt = tt.pid
					case "name":
						tgt = tt.name
					case "alias":
						tgt = tt.alias
					case "event":
						tgt = gen.Event{Name: tt.event, Node: n.Name()}
					}
					inv := e.Step()
					var err error
					link := op.Op == "link" || op.Op == "unlink"
					add := op.Op == "link" || op.Op == "monitor"
					switch {
					case op.What == "event" && op.Op == "link":
						_, err = p.LinkEvent(tgt.(gen.Event))
					case op.What == "event" && op.Op == "monitor":
						_, err = p.MonitorEvent(tgt.(gen.Event))
					case op.What == "event" && op.Op == "unlink":
						err = p.UnlinkEvent(tgt.(gen.Event))
					case op.What == "event" && op.Op == "demonitor":
						err = p.DemonitorEvent(tgt.(gen.Event))
					case op.Op == "link":
						err = p.Link(tgt)
					case op.Op == "unlink":
						err = p.Unlink(tgt)
					case op.Op == "monitor":
						err = p.Monitor(tgt)
					case op.Op == "demonitor":
						err = p.Demonitor(tgt)
					}
					ret := e.Step()
					mu.Lock()
					k := rkey{q, link, c04Key{op.T, op.What}}
					rels[k] = append(rels[k], c04Rel{add: add, inv: inv, ret: ret, err: err})
					mu.Unlock()
					e.Logf("q%d %s t%d.%s -> %v", q, op.Op, op.T, op.What, err)
				}
				return nil
			}
			k, link, reason, ok := keyOf(m)
			if !ok {
				if _, isStr := m.(string); !isStr {
					e.Fail("C04/unknown-notification", "requester %d received %#v which names no known target", q, m)
				}
				return nil
			}
			mu.Lock()
			notes[q] = append(notes[q], c04Note{link: link, key: k, reason: reason, step: e.Step()})
			mu.Unlock()
			e.Logf("q%d notified link=%v t%d.%s reason=%s", q, link, k.T, k.What, reason)
			return nil
		}
		pid, err := n.Spawn(ProbeFactory(h), gen.ProcessOptions{})
		if err != nil {
			e.Infra("spawn requester: " + err.Error())
			return
		}
		refs[ai] = actorRef{pid: pid, done: make(chan struct{})}
	}
	// go
	for ai, a := range c.Actors {
		ai, a := ai, a
		switch a.Role {
		case "requester", "target":
			e.Go(fmt.Sprintf("kick%d", ai), func() {
				if err := n.Send(refs[ai].pid, "go"); err != nil {
					return // target already killed
				}
				e.WaitChan(refs[ai].done, 2*time.Minute)
			})
		case "client":
			e.Go(fmt.Sprintf("client%d", ai), func() {
				for _, op := range a.Ops {
					inv := e.Step()
					var err error
					switch op.Op {
					case "kill":
						// the disappearance interval starts here; Terminate closes it
						mu.Lock()
						for _, what := range []string{"pid", "name", "alias", "event"} {
							k := c04Key{op.T, what}
							if g := gone[k]; g == nil {
								gone[k] = &c04Gone{ds: inv, de: 1 << 30, set: true}
							} else if inv < g.ds {
								g.ds = inv
							}
						}
						mu.Unlock()
						err = n.Kill(targets[op.T].pid)
						if err == nil {
							mu.Lock()
							for _, what := range []string{"pid", "name", "alias", "event"} {
								gone[c04Key{op.T, what}].reasons = append(gone[c04Key{op.T, what}].reasons, "kill")
							}
							mu.Unlock()
						}
					case "unregname-node":
						_, err = n.UnregisterName(targets[op.T].name)
						if err == nil {
							markGone(c04Key{op.T, "name"}, inv, e.Step(), "unregistered")
						}
					}
					e.Logf("client %s t%d -> %v", op.Op, op.T, err)
				}
			})
		}
	}
	e.WaitClients(10 * time.Minute)
	e.Settle(10 * time.Second)
	if e.Failed() {
		return
	}

	// ---- oracle ----
	mu.Lock()
	defer mu.Unlock()
	// a kill that failed (target already gone) may have left an open interval without a Terminate: close it
	for k, g := range gone {
		if g.de == 1<<30 {
			if _, err := n.ProcessInfo(targets[max(k.T, 0)].pid); err == nil && k.T >= 0 {
				delete(gone, k) // kill failed and the target lives
			} else {
				g.de = e.Step()
			}
		}
	}
	count := func(q int, link bool, k c04Key) (int, []string) {
		c := 0
		var rs []string
		for _, nt := range notes[q] {
			if nt.link == link && nt.key == k {
				c++
				rs = append(rs, nt.reason)
			}
		}
		return c, rs
	}
	seenKeys := map[rkey]bool{}
	for rk, ops := range rels {
		seenKeys[rk] = true
		g := gone[rk.k]
		kind := "monitor"
		if rk.link {
			kind = "link"
		}
		nn, reasons := count(rk.q, rk.link, rk.k)
		if g == nil {
			if nn != 0 {
				e.Fail("C04/spurious-notification", "requester %d got %d %s notifications for t%d.%s which never went away", rk.q, nn, kind, rk.k.T, rk.k.What)
				return
			}
			continue
		}
		activeBefore := false
		overlapAdd, overlapRem, overlapAny := false, false, false
		for _, o := range ops {
			switch {
			case o.ret < g.ds:
				if o.err == nil {
					activeBefore = o.add
				}
			case o.inv > g.de:
				if o.add && o.err == nil {
					e.Fail("C04/succeeded-on-gone-target", "requester %d: %s on t%d.%s succeeded at steps %d-%d although the target had gone away by step %d", rk.q, kind, rk.k.T, rk.k.What, o.inv, o.ret, g.de)
					return
				}
				if o.add {
					e.Probe("request-on-gone-target-refused")
				}
			default:
				overlapAny = true
				if o.err == nil && o.add {
					overlapAdd = true
				}
				if o.err == nil && !o.add {
					overlapRem = true
				}
			}
		}
		if nn > 1 {
			e.Fail("C04/notified-twice", "requester %d got %d %s notifications for t%d.%s (reasons %v)", rk.q, nn, kind, rk.k.T, rk.k.What, reasons)
			return
		}
		for _, r := range reasons {
			ok := false
			for _, a := range g.reasons {
				if a == r {
					ok = true
				}
			}
			if !ok {
				e.Fail("C04/wrong-reason", "requester %d: %s notification for t%d.%s carries reason %q, the target went away because of %v", rk.q, kind, rk.k.T, rk.k.What, r, g.reasons)
				return
			}
		}
		switch {
		case !overlapAny:
			if activeBefore && nn != 1 {
				e.Fail("C04/not-notified", "requester %d held a %s on t%d.%s (established before step %d, never removed) but got %d notifications when the target went away (%v)", rk.q, kind, rk.k.T, rk.k.What, g.ds, nn, g.reasons)
				return
			}
			if !activeBefore && nn != 0 {
				e.Fail("C04/spurious-notification", "requester %d held no %s on t%d.%s when it went away but got %d notifications", rk.q, kind, rk.k.T, rk.k.What, nn)
				return
			}
			if activeBefore {
				e.Probe("relation-notified")
			} else {
				e.Probe("relation-removed-before-disappearance")
			}
		default:
			e.Probe("request-overlapped-disappearance")
			if nn == 0 && !overlapRem {
				if overlapAdd && !activeBefore {
					e.Fail("C04/race-succeeded-not-notified", "requester %d: %s on t%d.%s succeeded while the target was going away (steps %d-%d) and was never notified", rk.q, kind, rk.k.T, rk.k.What, g.ds, g.de)
					return
				}
				if activeBefore {
					e.Fail("C04/not-notified", "requester %d held a %s on t%d.%s before it went away, a later request overlapped the disappearance, and no notification arrived", rk.q, kind, rk.k.T, rk.k.What)
					return
				}
			}
			if nn == 1 {
				e.Probe("relation-notified")
			}
		}
	}
	// notifications without any request
	for q, ns := range notes {
		for _, nt := range ns {
			if !seenKeys[rkey{q, nt.link, nt.key}] {
				e.Fail("C04/spurious-notification", "requester %d never asked for link=%v on t%d.%s but was notified", q, nt.link, nt.key.T, nt.key.What)
				return
			}
		}
	}
}

// runC04Reuse: a relation requested on a registered name after a new process has claimed
// it belongs to the new owner: the requester is not told about the previous owner's
// termination, and is told exactly once when the new owner goes away.
func runC04Reuse(e *simkit.Env, n gen.Node, c *C04Case) {
	var mu sync.Mutex
	monitor := c.Reuse > 2
	kill := c.Reuse%2 == 0
	name := gen.Atom("rn")
	var notes []string
	linked := make(chan error, 1)
	claimed := make(chan struct{})
	var rpid gen.PID
	rh := &Hooks{Name: "reuse-requester", Env: e, Trap: true}
	rh.Message = func(p *Probe, from gen.PID, m any) error {
		switch v := m.(type) {
		case string:
			if v == "linknow" {
				var err error
				if monitor {
					err = p.MonitorProcessID(gen.ProcessID{Name: name, Node: n.Name()})
				} else {
					err = p.LinkProcessID(gen.ProcessID{Name: name, Node: n.Name()})
				}
				e.Logf("requester relates to the name -> %v", err)
				linked <- err
			}
		case gen.MessageExitProcessID:
			mu.Lock()
			notes = append(notes, c04Reason(v.Reason))
			mu.Unlock()
			e.Logf("requester exit for name: %s", c04Reason(v.Reason))
		case gen.MessageDownProcessID:
			mu.Lock()
			notes = append(notes, c04Reason(v.Reason))
			mu.Unlock()
			e.Logf("requester down for name: %s", c04Reason(v.Reason))
		}
		return nil
	}
	var err error
	rpid, err = spawnUnder(e, n, rh)
	if err != nil {
		e.Infra("spawn: " + err.Error())
		return
	}
	th := &Hooks{Name: "first-owner", Env: e, Slow: true}
	th.Message = func(p *Probe, from gen.PID, m any) error {
		if m == "die" {
			return fmt.Errorf("boom-first")
		}
		return nil
	}
	tpid, err := n.SpawnRegister(name, ProbeFactory(th), gen.ProcessOptions{})
	if err != nil {
		e.Infra("spawn: " + err.Error())
		return
	}
	sh := &Hooks{Name: "successor", Env: e}
	sh.Message = func(p *Probe, from gen.PID, m any) error {
		switch m {
		case "claim":
			for i := 0; i < 400; i++ {
				if err := p.RegisterName(name); err == nil {
					e.Logf("successor owns the name after %d attempts", i+1)
					p.Send(rpid, "linknow")
					close(claimed)
					return nil
				}
				e.Gate("successor:retry")
			}
			e.Logf("successor gave up")
			close(claimed)
		case "die":
			return fmt.Errorf("boom-second")
		}
		return nil
	}
	spid, err := n.Spawn(ProbeFactory(sh), gen.ProcessOptions{})
	if err != nil {
		e.Infra("spawn: " + err.Error())
		return
	}
	e.Go("kill-first", func() {
		if kill {
			n.Kill(tpid)
		} else {
			n.Send(tpid, "die")
		}
	})
	e.Go("claim", func() {
		n.Send(spid, "claim")
		e.WaitChan(claimed, time.Minute)
	})
	if !e.WaitClients(5 * time.Minute) {
		e.Fail("C04/actor-stuck", "name-reuse scenario: an actor did not finish")
		return
	}
	e.Settle(5 * time.Second)
	var lerr error
	select {
	case lerr = <-linked:
	default:
		return // the successor never got the name: nothing to judge
	}
	if lerr != nil {
		e.Fail("C04/unexpected-failure", "name-reuse scenario: relation on the name owned by the live successor failed: %v", lerr)
		return
	}
	e.Probe("relation-on-reused-name")
	mu.Lock()
	got := append([]string(nil), notes...)
	mu.Unlock()
	if len(got) != 0 {
		e.Fail("C04/notified-for-previous-owner", "a process that linked/monitored a registered name after a new process had claimed it was notified %v (the previous owner's termination) while the new owner is alive (monitor=%v)", got, monitor)
		return
	}
	n.Send(spid, "die")
	e.Settle(5 * time.Second)
	mu.Lock()
	got = append([]string(nil), notes...)
	mu.Unlock()
	if len(got) != 1 || got[0] != "boom-second" {
		e.Fail("C04/not-notified", "name-reuse scenario: the owner of the name terminated (boom-second) and the process that links/monitors the name got notifications %v", got)
	}
}

// runC04Born: a relation requested on a registered name whose process is still being spawned. The
// name is visible from the moment SpawnRegister claimed it: a request either fails or is notified
// exactly once when the name goes away again - because Init failed, or because the process was killed later.
func runC04Born(e *simkit.Env, n gen.Node, c *C04Case) {
	var mu sync.Mutex
	monitor := c.Born%2 == 0
	initFails := c.Born <= 2
	name := gen.Atom("born")
	type req struct {
		err   error
		notes []string
		done  chan struct{}
	}
	reqs := []*req{{done: make(chan struct{})}, {done: make(chan struct{})}}
	for i, rq := range reqs {
		i, rq := i, rq
		rh := &Hooks{Name: fmt.Sprintf("born-requester%d", i), Env: e, Trap: true}
		rh.Message = func(p *Probe, from gen.PID, m any) error {
			switch v := m.(type) {
			case string:
				if v == "relate" {
					if monitor {
						rq.err = p.MonitorProcessID(gen.ProcessID{Name: name, Node: n.Name()})
					} else {
						rq.err = p.LinkProcessID(gen.ProcessID{Name: name, Node: n.Name()})
					}
					e.Logf("requester %d relates to the name -> %v", i, rq.err)
					close(rq.done)
				}
			case gen.MessageExitProcessID:
				mu.Lock()
				rq.notes = append(rq.notes, c04Reason(v.Reason))
				mu.Unlock()
				e.Logf("requester %d exit for name: %s", i, c04Reason(v.Reason))
			case gen.MessageDownProcessID:
				mu.Lock()
				rq.notes = append(rq.notes, c04Reason(v.Reason))
				mu.Unlock()
				e.Logf("requester %d down for name: %s", i, c04Reason(v.Reason))
			}
			return nil
		}
		rpid, err := spawnUnder(e, n, rh)
		if err != nil {
			e.Infra("spawn: " + err.Error())
			return
		}
		e.Go(fmt.Sprintf("relate%d", i), func() {
			n.Send(rpid, "relate")
			e.WaitChan(rq.done, time.Minute)
		})
	}
	bh := &Hooks{Name: "born", Env: e, Slow: true}
	bh.Init = func(p *Probe, args ...any) error {
		e.Gate("born:init")
		e.Gate("born:init-2")
		if initFails {
			return fmt.Errorf("boom-init")
		}
		return nil
	}
	var bpid gen.PID
	var berr error
	e.Go("spawner", func() {
		bpid, berr = n.SpawnRegister(name, ProbeFactory(bh), gen.ProcessOptions{})
		e.Logf("SpawnRegister -> %v", berr)
	})
	if !e.WaitClients(5 * time.Minute) {
		e.Fail("C04/actor-stuck", "name-being-born scenario: an actor did not finish")
		return
	}
	e.Settle(5 * time.Second)
	if initFails != (berr != nil) {
		e.Fail("C04/unexpected-failure", "name-being-born scenario: SpawnRegister returned %v (Init fails: %v)", berr, initFails)
		return
	}
	want := "boom-init"
	if !initFails {
		for i, rq := range reqs {
			if rq.err != nil && !errors.Is(rq.err, gen.ErrProcessUnknown) && !errors.Is(rq.err, gen.ErrTargetUnknown) {
				e.Fail("C04/unexpected-failure", "name-being-born scenario: requester %d: relation on the name failed with %v", i, rq.err)
				return
			}
			mu.Lock()
			k := len(rq.notes)
			mu.Unlock()
			if k != 0 {
				e.Fail("C04/spurious-notification", "name-being-born scenario: requester %d was notified %v while the owner of the name is alive", i, rq.notes)
				return
			}
		}
		n.Kill(bpid)
		e.Settle(5 * time.Second)
		want = "kill"
	}
	for i, rq := range reqs {
		mu.Lock()
		got := append([]string(nil), rq.notes...)
		mu.Unlock()
		switch {
		case rq.err != nil:
			if len(got) != 0 {
				e.Fail("C04/spurious-notification", "name-being-born scenario: requester %d: the request failed (%v) but it was notified %v", i, rq.err, got)
				return
			}
			e.Probe("request-on-gone-target-refused")
		case len(got) != 1:
			e.Fail("C04/race-succeeded-not-notified", "name-being-born scenario (monitor=%v, Init fails=%v): requester %d: the request on the registered name succeeded while its process was being spawned; the name went away (%s) and the requester got notifications %v", monitor, initFails, i, want, got)
			return
		case got[0] != want:
			e.Fail("C04/wrong-reason", "name-being-born scenario: requester %d was notified with reason %q, the name went away because of %q", i, got[0], want)
			return
		default:
			e.Probe("relation-notified")
			if initFails {
				e.Probe("request-overlapped-disappearance")
			}
		}
	}
}
