package props

import (
	"ergo.services/ergo/gen"
	"fmt"

	"verifsim/simkit"
)

// C12 Remote delivery integrity: exactly once, to the addressee, unchanged.

type c12 struct{}

func init() { Register(c12{}) }

func (c12) ID() string    { return "C12" }
func (c12) Level() string { return "exploration" }
func (c12) NewCase() any  { return &NDCase{} }
func (c12) Nontrivial() []string {
	return []string{"frame-split-across-reads", "pooled-links", "compressed-frame", "oversize-refused", "important-refused-remotely", "large-payload"}
}
func (c12) Rule() string {
	return "case = two real nodes (real handshake, proto, EDF) over the simulated TCP network with drawn pool size 1-3, per-link latency skew up to 1000x and random segmentation of the byte stream; " +
		"1-4 sender actors on one node (compression off / gzip / zlib / lzw x level x threshold, filler spawns to vary pid residues) send, send-important, call and call-important typed payloads " +
		"(byte slices, strings, registered nested structs, maps, integers) with sizes 0..200000 around buffer and frame boundaries to 1-3 receivers (by pid, name, alias; unbounded or bounded mailboxes) or to nobody; optional MaxMessageSize on the receiving node. " +
		"Oracle: every accepted item is received exactly once by the addressed process only, with the true sender and a payload equal to the one the id denotes; a payload refused as too large never arrives and the connection survives; " +
		"an important send/call reports success iff the item is in the remote receive log and otherwise the remote reason. Non-trivial = a frame was split across reads, pooled links, compression, oversize refusal or remote refusal occurred; distinct = distinct (schedule, history) hashes."
}
func (c12) Components() ([]string, []string) {
	return []string{"net/handshake", "net/proto (framing, pool, receive queues, compression, flusher)", "net/edf", "node/network.go", "lib.Buffer / lib/compress"},
		[]string{"TCP (simnet: in-memory byte pipes with seeded segmentation, latency, stalls)", "registrar (static table)", "default logger disabled"}
}
func (c12) Generate(r *simkit.Rand, tier string) any { return genNDCase(r, tier, false) }
func (c12) Shrink(c any) []any                       { return shrinkNDCase(c.(*NDCase)) }
func (c12) Sched(r *simkit.Rand, c any) simkit.SchedSpec {
	s := DefaultSched(r, 3000)
	s.MaxSteps = 3000000
	return s
}

func (c12) Run(e *simkit.Env, cc any) {
	c := cc.(*NDCase)
	r := runDelivery("C12", e, c)
	if r == nil {
		return
	}
	defer r.stop()
	if e.Failed() {
		return
	}
	r.netProbes()
	r.mu.Lock()
	defer r.mu.Unlock()
	count := map[int][]ndRecv{}
	for _, x := range r.recv {
		count[x.id] = append(count[x.id], x)
	}
	for _, s := range r.sent {
		if s.op.Size > 60000 {
			e.Probe("large-payload")
		}
		if c.Senders[s.sender].Compress != "" && s.op.Size >= c.Senders[s.sender].Threshold {
			e.Probe("compressed-frame")
		}
		got := count[s.id]
		toNobody := s.op.To >= len(c.Receivers)
		bounded := !toNobody && c.Receivers[s.op.To] > 0
		for _, g := range got {
			if toNobody || g.rcv != s.op.To {
				e.Fail("C12/wrong-addressee", "%s id=%d addressed to receiver %d by %s was received by receiver %d", s.op.Kind, s.id, s.op.To, s.op.Mode, g.rcv)
				return
			}
			if g.from != r.spid[s.sender] {
				e.Fail("C12/wrong-sender", "%s id=%d was received with sender %v, the true sender is %v", s.op.Kind, s.id, g.from, r.spid[s.sender])
				return
			}
			if !g.ok {
				e.Fail("C12/payload-changed", "%s id=%d (%s, size %d, compression %q, pool %d): %s", s.op.Kind, s.id, s.op.Typ, s.op.Size, c.Senders[s.sender].Compress, c.Pool, g.problem)
				return
			}
		}
		if len(got) > 1 {
			e.Fail("C12/received-twice", "%s id=%d was received %d times", s.op.Kind, s.id, len(got))
			return
		}
		tooLarge := errIs(s.err, gen.ErrTooLarge)
		if tooLarge {
			e.Probe("oversize-refused")
			if len(got) != 0 {
				e.Fail("C12/refused-but-received", "id=%d was refused at the sender as too large but arrived", s.id)
				return
			}
			if c.MaxSizeB == 0 {
				e.Fail("C12/spurious-too-large", "id=%d (size %d) refused as too large although the peer has no message size limit", s.id, s.op.Size)
				return
			}
			continue
		}
		if c.MaxSizeB > 0 && c.Senders[s.sender].Compress == "" && s.op.Typ == "bytes" && s.op.Size > c.MaxSizeB+100 && s.err == nil && (s.op.Kind == "send") {
			e.Fail("C12/oversize-not-refused", "id=%d with %d payload bytes was accepted by the sender although the peer's limit is %d", s.id, s.op.Size, c.MaxSizeB)
			return
		}
		switch s.op.Kind {
		case "send":
			if s.err != nil {
				e.Fail("C12/send-failed", "plain send id=%d over an established connection failed: %v", s.id, s.err)
				return
			}
			if !toNobody && !bounded && len(got) != 1 {
				e.Fail("C12/lost", "send id=%d (%s size %d mode %s, compression %q, pool %d, segmentation %v) to an existing receiver with an unbounded mailbox was received %d times", s.id, s.op.Typ, s.op.Size, s.op.Mode, c.Senders[s.sender].Compress, c.Pool, c.Segment, len(got))
				return
			}
		case "important":
			if s.err == nil && len(got) != 1 {
				e.Fail("C12/important-acked-but-not-received", "important send id=%d reported success but the receiver saw it %d times", s.id, len(got))
				return
			}
			if s.err != nil {
				if len(got) != 0 {
					e.Fail("C12/important-failed-but-received", "important send id=%d returned %v but the message is in the remote receive log", s.id, s.err)
					return
				}
				e.Probe("important-refused-remotely")
				switch {
				case toNobody && !errIs(s.err, gen.ErrProcessUnknown):
					e.Fail("C12/important-wrong-reason", "important send id=%d to a missing process returned %v", s.id, s.err)
					return
				case !toNobody && !bounded:
					e.Fail("C12/important-wrong-reason", "important send id=%d to a live unbounded receiver returned %v", s.id, s.err)
					return
				case bounded && !errIs(s.err, gen.ErrProcessMailboxFull):
					e.Fail("C12/important-wrong-reason", "important send id=%d to a bounded receiver returned %v", s.id, s.err)
					return
				}
			}
		case "call", "callimportant":
			if s.op.ErrReply && len(got) == 1 {
				// the receiver answered with an error of its own: the caller gets that error (or
				// nothing in time), never a value and never another error
				want := fmt.Sprintf("refused-%d", s.id)
				if s.err == nil || (s.err.Error() != want && !errIs(s.err, gen.ErrTimeout)) {
					e.Fail("C12/wrong-reply", "%s id=%d was answered with the error %q but returned (%#v, %v)", s.op.Kind, s.id, want, s.reply, s.err)
					return
				}
				if s.err.Error() == want {
					e.Probe("custom-error-reply")
				}
				break
			}
			if s.err == nil {
				rep, ok := s.reply.(ndMsg)
				if !ok || rep.ID != -s.id {
					e.Fail("C12/wrong-reply", "%s id=%d returned %#v", s.op.Kind, s.id, s.reply)
					return
				}
				if len(got) != 1 {
					e.Fail("C12/reply-without-request", "%s id=%d got a reply but the receiver saw the request %d times", s.op.Kind, s.id, len(got))
					return
				}
			} else {
				if !toNobody && !bounded {
					e.Fail("C12/call-failed", "%s id=%d to a live unbounded receiver failed: %v (request seen %d times)", s.op.Kind, s.id, s.err, len(got))
					return
				}
				if s.op.Kind == "callimportant" && len(got) != 0 && !errIs(s.err, gen.ErrTimeout) {
					e.Fail("C12/important-failed-but-received", "important call id=%d returned %v but the request is in the remote receive log", s.id, s.err)
					return
				}
				if s.op.Kind == "callimportant" && toNobody && !errIs(s.err, gen.ErrProcessUnknown) {
					e.Fail("C12/important-wrong-reason", "important call id=%d to a missing process returned %v", s.id, s.err)
					return
				}
			}
		}
	}
	for id, gs := range count {
		known := false
		for _, s := range r.sent {
			if s.id == id {
				known = true
			}
		}
		if !known {
			e.Fail("C12/unknown-message", "receiver %d got a message with id %d that nobody sent", gs[0].rcv, id)
			return
		}
	}
}
