package props

import (
	"fmt"
	"sync"
	"sync/atomic"

	"ergo.services/ergo/act"
	"ergo.services/ergo/gen"

	"verifsim/simkit"
)

// Hooks configure a probe actor: an act.Actor whose callbacks record what
// they see and contain a scheduling point, so that other goroutines can be
// scheduled while a callback is in progress.
type Hooks struct {
	Name string
	Env  *simkit.Env
	Trap bool
	// Slow adds a scheduling point inside every callback.
	Slow bool

	Init      func(p *Probe, args ...any) error
	Message   func(p *Probe, from gen.PID, m any) error
	Call      func(p *Probe, from gen.PID, ref gen.Ref, req any) (any, error)
	Event     func(p *Probe, ev gen.MessageEvent) error
	Inspect   func(p *Probe, from gen.PID, item ...string) map[string]string
	Log       func(p *Probe, m gen.MessageLog) error
	Terminate func(p *Probe, reason error)

	// serial-execution instrumentation (C01): shared by all incarnations
	depth     atomic.Int32
	Overlaps  atomic.Int32
	Entered   atomic.Int32
	counter   int // deliberately non-atomic read-modify-write
	OverlapAt string
	mu        sync.Mutex
	Callbacks []string // callback log: names in order
	TermCount atomic.Int32
}

// Probe is the actor type used by every workload.
type Probe struct {
	act.Actor
	H *Hooks
}

func ProbeFactory(h *Hooks) gen.ProcessFactory {
	return func() gen.ProcessBehavior { return &Probe{H: h} }
}

func (h *Hooks) enter(cb string) {
	d := h.depth.Add(1)
	h.Entered.Add(1)
	if d != 1 {
		h.Overlaps.Add(1)
		h.mu.Lock()
		if h.OverlapAt == "" {
			prev := ""
			if n := len(h.Callbacks); n > 0 {
				prev = h.Callbacks[n-1]
			}
			h.OverlapAt = fmt.Sprintf("%s entered while %s in progress", cb, prev)
		}
		h.mu.Unlock()
	}
	h.mu.Lock()
	h.Callbacks = append(h.Callbacks, cb)
	h.mu.Unlock()
	// non-atomic read-modify-write with a scheduling point in the middle
	v := h.counter
	if h.Slow && h.Env != nil {
		h.Env.Gate("cb:" + h.Name + ":" + cb)
	}
	h.counter = v + 1
}

func (h *Hooks) exit() { h.depth.Add(-1) }

// LostUpdates is the number of callback executions whose counter update was
// overwritten by an overlapping callback.
func (h *Hooks) LostUpdates() int { return int(h.Entered.Load()) - h.counter }

func (h *Hooks) CallbackLog() []string {
	h.mu.Lock()
	defer h.mu.Unlock()
	return append([]string(nil), h.Callbacks...)
}

func (p *Probe) Init(args ...any) error {
	h := p.H
	h.enter("init")
	defer h.exit()
	p.SetTrapExit(h.Trap)
	if h.Init != nil {
		return h.Init(p, args...)
	}
	return nil
}

func (p *Probe) HandleMessage(from gen.PID, m any) error {
	h := p.H
	h.enter("message")
	defer h.exit()
	if h.Message != nil {
		return h.Message(p, from, m)
	}
	return nil
}

func (p *Probe) HandleCall(from gen.PID, ref gen.Ref, req any) (any, error) {
	h := p.H
	h.enter("call")
	defer h.exit()
	if h.Call != nil {
		return h.Call(p, from, ref, req)
	}
	return nil, nil
}

func (p *Probe) HandleEvent(ev gen.MessageEvent) error {
	h := p.H
	h.enter("event")
	defer h.exit()
	if h.Event != nil {
		return h.Event(p, ev)
	}
	return nil
}

func (p *Probe) HandleInspect(from gen.PID, item ...string) map[string]string {
	h := p.H
	h.enter("inspect")
	defer h.exit()
	if h.Inspect != nil {
		return h.Inspect(p, from, item...)
	}
	return map[string]string{"probe": h.Name}
}

func (p *Probe) HandleLog(m gen.MessageLog) error {
	h := p.H
	h.enter("log")
	defer h.exit()
	if h.Log != nil {
		return h.Log(p, m)
	}
	return nil
}

func (p *Probe) Terminate(reason error) {
	h := p.H
	h.enter("terminate")
	defer h.exit()
	h.TermCount.Add(1)
	if h.Terminate != nil {
		h.Terminate(p, reason)
	}
}
