package props

import (
	"fmt"
	"sync"
	"sync/atomic"

	"ergo.services/ergo/act"
	"ergo.services/ergo/gen"
	"ergo.services/ergo/lib"

	"verifsim/simkit"
)

// Hooks configure a probe actor: an act.Actor whose callbacks record what
// they see and contain a scheduling point, so that other goroutines can be
// scheduled while a callback is in progress.
type Hooks struct {
	Name string
	Env  *simkit.Env
	Trap bool
	// Slow adds a scheduling point inside every callback.
	Slow bool

	Init      func(p *Probe, args ...any) error
	Message   func(p *Probe, from gen.PID, m any) error
	Call      func(p *Probe, from gen.PID, ref gen.Ref, req any) (any, error)
	Event     func(p *Probe, ev gen.MessageEvent) error
	Inspect   func(p *Probe, from gen.PID, item ...string) map[string]string
	Log       func(p *Probe, m gen.MessageLog) error
	Terminate func(p *Probe, reason error)

	SupInit        func(p *ProbeSup, args ...any) (act.SupervisorSpec, error)
	ChildStart     func(p *ProbeSup, name gen.Atom, pid gen.PID) error
	ChildTerminate func(p *ProbeSup, name gen.Atom, pid gen.PID, reason error) error
	SupMessage     func(p *ProbeSup, from gen.PID, m any) error
	SupCall        func(p *ProbeSup, from gen.PID, ref gen.Ref, req any) (any, error)
	SupTerminate   func(p *ProbeSup, reason error)

	PoolInit      func(p *ProbePool, args ...any) (act.PoolOptions, error)
	PoolMessage   func(p *ProbePool, from gen.PID, m any) error
	PoolCall      func(p *ProbePool, from gen.PID, ref gen.Ref, req any) (any, error)
	PoolTerminate func(p *ProbePool, reason error)

	MetaInit      func(m *ProbeMeta) error
	MetaStart     func(m *ProbeMeta) error
	MetaMessage   func(m *ProbeMeta, from gen.PID, msg any) error
	MetaCall      func(m *ProbeMeta, from gen.PID, ref gen.Ref, req any) (any, error)
	MetaTerminate func(m *ProbeMeta, reason error)

	// serial-execution instrumentation (C01); depth and counter live in the
	// per-process instance state, totals are accumulated here
	Overlaps  atomic.Int32
	Entered   atomic.Int32
	insts     []*inst
	OverlapAt string
	// EndedAfterTerminate: name of a callback that was still in progress when terminate was entered
	EndedAfterTerminate string
	mu                  sync.Mutex
	Callbacks           []string // callback log: names in order
	TermCount           atomic.Int32
}

// Probe is the actor type used by every workload.
type Probe struct {
	act.Actor
	H *Hooks
	i *inst
}

func ProbeFactory(h *Hooks) gen.ProcessFactory {
	return func() gen.ProcessBehavior { return &Probe{H: h, i: h.newInst()} }
}

// inst is the per-process part of the instrumentation.
type inst struct {
	termEntered atomic.Bool
	depth       atomic.Int32
	entered     atomic.Int32
	counter     int // deliberately non-atomic read-modify-write
}

func (h *Hooks) newInst() *inst {
	i := &inst{}
	h.mu.Lock()
	h.insts = append(h.insts, i)
	h.mu.Unlock()
	return i
}

func (h *Hooks) enter(i *inst, cb string) {
	if cb == "terminate" {
		i.termEntered.Store(true)
	}
	d := i.depth.Add(1)
	i.entered.Add(1)
	h.Entered.Add(1)
	if d != 1 {
		h.Overlaps.Add(1)
		h.mu.Lock()
		if h.OverlapAt == "" {
			prev := ""
			if n := len(h.Callbacks); n > 0 {
				prev = h.Callbacks[n-1]
			}
			h.OverlapAt = fmt.Sprintf("%s entered while %s in progress", cb, prev)
		}
		h.mu.Unlock()
	}
	h.mu.Lock()
	h.Callbacks = append(h.Callbacks, cb)
	h.mu.Unlock()
	// non-atomic read-modify-write with a scheduling point in the middle
	v := i.counter
	if h.Slow && h.Env != nil {
		h.Env.Gate("cb:" + h.Name + ":" + cb)
	}
	i.counter = v + 1
}

func (i *inst) exit() { i.depth.Add(-1) }

// leave ends a callback: if the terminate callback of this process has already been entered,
// a callback that was still in progress then is finishing after it.
func (h *Hooks) leave(i *inst, cb string) {
	if cb != "terminate" && cb != "start" && i.termEntered.Load() {
		h.mu.Lock()
		if h.EndedAfterTerminate == "" {
			h.EndedAfterTerminate = cb
		}
		h.mu.Unlock()
	}
	i.exit()
}

// LostUpdates is the number of callback executions whose counter update was
// overwritten by an overlapping callback of the same process.
func (h *Hooks) LostUpdates() int {
	h.mu.Lock()
	defer h.mu.Unlock()
	n := 0
	for _, i := range h.insts {
		n += int(i.entered.Load()) - i.counter
	}
	return n
}

func (h *Hooks) endedAfterTerminate() string {
	h.mu.Lock()
	defer h.mu.Unlock()
	return h.EndedAfterTerminate
}

func (h *Hooks) CallbackLog() []string {
	h.mu.Lock()
	defer h.mu.Unlock()
	return append([]string(nil), h.Callbacks...)
}

func (p *Probe) Init(args ...any) error {
	h := p.H
	h.enter(p.i, "init")
	defer h.leave(p.i, "init")
	p.SetTrapExit(h.Trap)
	if h.Init != nil {
		return h.Init(p, args...)
	}
	return nil
}

func (p *Probe) HandleMessage(from gen.PID, m any) error {
	h := p.H
	h.enter(p.i, "message")
	defer h.leave(p.i, "message")
	if h.Message != nil {
		return h.Message(p, from, m)
	}
	return nil
}

func (p *Probe) HandleCall(from gen.PID, ref gen.Ref, req any) (any, error) {
	h := p.H
	h.enter(p.i, "call")
	defer h.leave(p.i, "call")
	if h.Call != nil {
		return h.Call(p, from, ref, req)
	}
	return nil, nil
}

// with SetSplitHandle(true) messages and requests addressed by name or alias arrive through
// callbacks of their own: same hooks, same serialisation bookkeeping
func (p *Probe) HandleMessageName(name gen.Atom, from gen.PID, m any) error {
	return p.HandleMessage(from, m)
}
func (p *Probe) HandleMessageAlias(alias gen.Alias, from gen.PID, m any) error {
	return p.HandleMessage(from, m)
}
func (p *Probe) HandleCallName(name gen.Atom, from gen.PID, ref gen.Ref, req any) (any, error) {
	if p.H.Env != nil {
		p.H.Env.Probe("split-handle-callback")
	}
	return p.HandleCall(from, ref, req)
}
func (p *Probe) HandleCallAlias(alias gen.Alias, from gen.PID, ref gen.Ref, req any) (any, error) {
	if p.H.Env != nil {
		p.H.Env.Probe("split-handle-callback")
	}
	return p.HandleCall(from, ref, req)
}

func (p *Probe) HandleEvent(ev gen.MessageEvent) error {
	h := p.H
	h.enter(p.i, "event")
	defer h.leave(p.i, "event")
	if h.Event != nil {
		return h.Event(p, ev)
	}
	return nil
}

func (p *Probe) HandleInspect(from gen.PID, item ...string) map[string]string {
	h := p.H
	h.enter(p.i, "inspect")
	defer h.leave(p.i, "inspect")
	if h.Inspect != nil {
		return h.Inspect(p, from, item...)
	}
	return map[string]string{"probe": h.Name}
}

func (p *Probe) HandleLog(m gen.MessageLog) error {
	h := p.H
	h.enter(p.i, "log")
	defer h.leave(p.i, "log")
	if h.Log != nil {
		return h.Log(p, m)
	}
	return nil
}

func (p *Probe) Terminate(reason error) {
	h := p.H
	h.enter(p.i, "terminate")
	defer h.leave(p.i, "terminate")
	h.TermCount.Add(1)
	if h.Terminate != nil {
		h.Terminate(p, reason)
	}
}

// ---- supervisor probe ----

type ProbeSup struct {
	act.Supervisor
	H *Hooks
	i *inst
}

func ProbeSupFactory(h *Hooks) gen.ProcessFactory {
	return func() gen.ProcessBehavior { return &ProbeSup{H: h, i: h.newInst()} }
}

func (p *ProbeSup) Init(args ...any) (act.SupervisorSpec, error) {
	h := p.H
	h.enter(p.i, "init")
	defer h.leave(p.i, "init")
	return h.SupInit(p, args...)
}

func (p *ProbeSup) HandleChildStart(name gen.Atom, pid gen.PID) error {
	h := p.H
	h.enter(p.i, "childstart")
	defer h.leave(p.i, "childstart")
	if h.ChildStart != nil {
		return h.ChildStart(p, name, pid)
	}
	return nil
}

func (p *ProbeSup) HandleChildTerminate(name gen.Atom, pid gen.PID, reason error) error {
	h := p.H
	h.enter(p.i, "childterminate")
	defer h.leave(p.i, "childterminate")
	if h.ChildTerminate != nil {
		return h.ChildTerminate(p, name, pid, reason)
	}
	return nil
}

func (p *ProbeSup) HandleMessage(from gen.PID, m any) error {
	h := p.H
	h.enter(p.i, "message")
	defer h.leave(p.i, "message")
	if h.SupMessage != nil {
		return h.SupMessage(p, from, m)
	}
	return nil
}

func (p *ProbeSup) HandleCall(from gen.PID, ref gen.Ref, req any) (any, error) {
	h := p.H
	h.enter(p.i, "call")
	defer h.leave(p.i, "call")
	if h.SupCall != nil {
		return h.SupCall(p, from, ref, req)
	}
	return nil, nil
}

func (p *ProbeSup) HandleInspect(from gen.PID, item ...string) map[string]string {
	h := p.H
	h.enter(p.i, "inspect")
	defer h.leave(p.i, "inspect")
	if h.Inspect != nil {
		return h.Inspect(nil, from, item...)
	}
	return map[string]string{"probe": h.Name}
}

func (p *ProbeSup) HandleEvent(ev gen.MessageEvent) error {
	h := p.H
	h.enter(p.i, "event")
	defer h.leave(p.i, "event")
	return nil
}

func (p *ProbeSup) Terminate(reason error) {
	h := p.H
	h.enter(p.i, "terminate")
	defer h.leave(p.i, "terminate")
	h.TermCount.Add(1)
	if h.SupTerminate != nil {
		h.SupTerminate(p, reason)
	}
}

// ---- pool probe ----

type ProbePool struct {
	act.Pool
	H *Hooks
	i *inst
}

func ProbePoolFactory(h *Hooks) gen.ProcessFactory {
	return func() gen.ProcessBehavior { return &ProbePool{H: h, i: h.newInst()} }
}

func (p *ProbePool) Init(args ...any) (act.PoolOptions, error) {
	h := p.H
	h.enter(p.i, "init")
	defer h.leave(p.i, "init")
	return h.PoolInit(p, args...)
}

func (p *ProbePool) HandleMessage(from gen.PID, m any) error {
	h := p.H
	h.enter(p.i, "message")
	defer h.leave(p.i, "message")
	if h.PoolMessage != nil {
		return h.PoolMessage(p, from, m)
	}
	return nil
}

func (p *ProbePool) HandleCall(from gen.PID, ref gen.Ref, req any) (any, error) {
	h := p.H
	h.enter(p.i, "call")
	defer h.leave(p.i, "call")
	if h.PoolCall != nil {
		return h.PoolCall(p, from, ref, req)
	}
	return nil, nil
}

func (p *ProbePool) HandleInspect(from gen.PID, item ...string) map[string]string {
	h := p.H
	h.enter(p.i, "inspect")
	defer h.leave(p.i, "inspect")
	if h.Inspect != nil {
		return h.Inspect(nil, from, item...)
	}
	return p.Pool.HandleInspect(from, item...)
}

func (p *ProbePool) HandleEvent(ev gen.MessageEvent) error {
	h := p.H
	h.enter(p.i, "event")
	defer h.leave(p.i, "event")
	return nil
}

func (p *ProbePool) Terminate(reason error) {
	h := p.H
	h.enter(p.i, "terminate")
	defer h.leave(p.i, "terminate")
	h.TermCount.Add(1)
	if h.PoolTerminate != nil {
		h.PoolTerminate(p, reason)
	}
}

// ---- meta-process probe ----

type ProbeMeta struct {
	gen.MetaProcess
	H    *Hooks
	i    *inst
	Stop chan error // Start returns what is received here
	term chan struct{}
	once sync.Once
}

func NewProbeMeta(h *Hooks) *ProbeMeta {
	return &ProbeMeta{H: h, i: h.newInst(), Stop: make(chan error, 1), term: make(chan struct{})}
}

func (m *ProbeMeta) Init(process gen.MetaProcess) error {
	h := m.H
	h.enter(m.i, "init")
	defer h.leave(m.i, "init")
	m.MetaProcess = process
	if h.MetaInit != nil {
		return h.MetaInit(m)
	}
	return nil
}

var errMetaStartPanics = fmt.Errorf("start panics")

// Start is the meta-process' own loop; it is not one of the serialised callbacks.
func (m *ProbeMeta) Start() error {
	h := m.H
	h.mu.Lock()
	h.Callbacks = append(h.Callbacks, "start")
	h.mu.Unlock()
	if h.MetaStart != nil {
		return h.MetaStart(m)
	}
	var err error
	select {
	case err = <-m.Stop:
		if h.Env != nil {
			h.Env.Gate("meta:" + h.Name + ":start-returns")
		}
		if err == errMetaStartPanics {
			panic("injected panic in Start of the meta-process")
		}
	case <-m.term:
		// like a real meta-process whose Terminate closes the resource Start is blocked on
	}
	return err
}

func (m *ProbeMeta) HandleMessage(from gen.PID, msg any) error {
	h := m.H
	h.enter(m.i, "message")
	defer h.leave(m.i, "message")
	if h.MetaMessage != nil {
		return h.MetaMessage(m, from, msg)
	}
	return nil
}

func (m *ProbeMeta) HandleCall(from gen.PID, ref gen.Ref, req any) (any, error) {
	h := m.H
	h.enter(m.i, "call")
	defer h.leave(m.i, "call")
	if h.MetaCall != nil {
		return h.MetaCall(m, from, ref, req)
	}
	return nil, nil
}

func (m *ProbeMeta) HandleInspect(from gen.PID, item ...string) map[string]string {
	h := m.H
	h.enter(m.i, "inspect")
	defer h.leave(m.i, "inspect")
	return map[string]string{"probe": h.Name}
}

func (m *ProbeMeta) Terminate(reason error) {
	h := m.H
	h.enter(m.i, "terminate")
	defer h.leave(m.i, "terminate")
	h.TermCount.Add(1)
	if h.MetaTerminate != nil {
		h.MetaTerminate(m, reason)
	}
	m.once.Do(func() { close(m.term) })
}

// ---- a behaviour written directly against gen.ProcessBehavior ----

// ProbeRaw is a process behaviour that implements gen.ProcessBehavior itself instead of using
// act.Actor: its mailbox loop takes message after message and never looks at the process state in
// between (a behaviour is not obliged to), so it returns from ProcessRun only when the mailbox is
// empty - also when the process has been killed meanwhile.
type ProbeRaw struct {
	gen.Process
	H           *Hooks
	i           *inst
	OnInit      func(p gen.Process) error
	OnMessage   func(p gen.Process, from gen.PID, m any) error
	OnCall      func(p gen.Process, from gen.PID, ref gen.Ref, req any) (any, error)
	OnTerminate func(p gen.Process, reason error)
}

func (r *ProbeRaw) ProcessInit(p gen.Process, args ...any) error {
	r.Process = p
	r.H.enter(r.i, "init")
	defer r.H.leave(r.i, "init")
	if r.OnInit != nil {
		return r.OnInit(p)
	}
	return nil
}

func (r *ProbeRaw) ProcessRun() error {
	mb := r.Mailbox()
	for {
		var msg *gen.MailboxMessage
		for _, q := range []lib.QueueMPSC{mb.Urgent, mb.System, mb.Main, mb.Log} {
			if r.H.Env != nil {
				r.H.Env.Gate("raw:" + r.H.Name + ":pop")
			}
			if m, ok := q.Pop(); ok {
				msg = m.(*gen.MailboxMessage)
				break
			}
		}
		if msg == nil {
			return nil
		}
		from, ref, typ, payload := msg.From, msg.Ref, msg.Type, msg.Message
		gen.ReleaseMailboxMessage(msg)
		switch typ {
		case gen.MailboxMessageTypeRegular:
			err := func() error {
				r.H.enter(r.i, "message")
				defer r.H.leave(r.i, "message")
				if r.OnMessage != nil {
					return r.OnMessage(r.Process, from, payload)
				}
				return nil
			}()
			if err != nil {
				return err
			}
		case gen.MailboxMessageTypeRequest:
			res, err := func() (any, error) {
				r.H.enter(r.i, "call")
				defer r.H.leave(r.i, "call")
				if r.OnCall != nil {
					return r.OnCall(r.Process, from, ref, payload)
				}
				return nil, nil
			}()
			if err != nil {
				return err
			}
			if res != nil {
				r.SendResponse(from, ref, res)
			}
		case gen.MailboxMessageTypeInspect:
			r.H.enter(r.i, "inspect")
			r.H.leave(r.i, "inspect")
			r.SendResponse(from, ref, map[string]string{"probe": r.H.Name})
		case gen.MailboxMessageTypeExit:
			switch exit := payload.(type) {
			case gen.MessageExitPID:
				return fmt.Errorf("%s: %w", exit.PID, exit.Reason)
			case gen.MessageExitProcessID:
				return fmt.Errorf("%s: %w", exit.ProcessID, exit.Reason)
			case gen.MessageExitAlias:
				return fmt.Errorf("%s: %w", exit.Alias, exit.Reason)
			case gen.MessageExitEvent:
				return fmt.Errorf("%s: %w", exit.Event, exit.Reason)
			case gen.MessageExitNode:
				return fmt.Errorf("%s: %w", exit.Name, gen.ErrNoConnection)
			}
		}
	}
}

func (r *ProbeRaw) ProcessTerminate(reason error) {
	r.H.enter(r.i, "terminate")
	defer r.H.leave(r.i, "terminate")
	r.H.TermCount.Add(1)
	if r.OnTerminate != nil {
		r.OnTerminate(r.Process, reason)
	}
}
