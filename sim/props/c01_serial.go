package props

import (
	"verifsim/simkit"
)

// C01 Serial execution: one callback of a process at a time.

type c01 struct{}

func init() { Register(c01{}) }

func (c01) ID() string    { return "C01" }
func (c01) Level() string { return "exploration" }
func (c01) NewCase() any  { return &TCase{} }
func (c01) Nontrivial() []string {
	return []string{"callbacks-with-concurrent-driver", "cause-kill", "cause-exit", "cause-metastop", "cause-err", "cause-panic", "cause-normal", "cause-parentexit"}
}
func (c01) Rule() string {
	return "case = one target (act.Actor, act.Supervisor with a child, act.Pool with workers, or a meta-process) + 2-5 concurrent drivers " +
		"(node-API clients and actors) issuing sends by pid/name/alias at three priorities, calls, inspects, delayed sends, log messages, " +
		"self-sends from Init and from handlers, exit signals, Kill, handler errors/panics and (meta) the return of Start; every callback " +
		"of every instrumented process increments a depth counter, parks at a scheduling point in the middle of a non-atomic counter update and decrements. " +
		"Non-trivial = a run in which callbacks ran while at least one driver was still active or a termination cause was issued; distinct = distinct (schedule, history) hashes."
}
func (c01) Components() ([]string, []string) {
	return []string{"node (process/meta runtime, Kill, routing)", "act.Actor", "act.Supervisor", "act.Pool", "lib.QueueMPSC"},
		[]string{"network disabled", "default logger disabled", "OS signals"}
}
func (c01) Generate(r *simkit.Rand, tier string) any { return genTCase(r, tier, false) }
func (c01) Shrink(c any) []any                       { return shrinkTCase(c.(*TCase)) }

func (c01) Run(e *simkit.Env, cc any) {
	c := cc.(*TCase)
	t := runTarget("C01", e, c)
	if t == nil {
		return
	}
	t.probes()
	t.stop()
	e.Settle(5 * 1e9)
	total := 0
	for _, h := range t.all {
		total += int(h.Entered.Load())
		if n := h.Overlaps.Load(); n > 0 {
			e.Fail("C01/overlap", "%s %s: %s (%d overlapping entries)%s", c.Kind, h.Name, h.OverlapAt, n, t.tag())
			return
		}
		if lu := h.LostUpdates(); lu != 0 {
			e.Fail("C01/lost-update", "%s %s: %d of %d callback executions lost their update of the process-local counter%s", c.Kind, h.Name, lu, h.Entered.Load(), t.tag())
			return
		}
	}
	if total > 3 {
		e.Probe("callbacks-with-concurrent-driver")
	}
}
