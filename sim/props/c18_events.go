package props

import (
	"errors"
	"fmt"
	"strings"
	"sync"
	"time"

	"ergo.services/ergo/gen"
	"ergo.services/ergo/net/edf"

	"verifsim/simkit"
)

// C18 Events: every subscriber sees every publication once, in order.

type C18Op struct {
	Kind string `json:"kind"`          // pub | badpub | sub | unsub | unregister | die
	N    int    `json:"n"`             // pub: how many publications in a row
	Big  bool   `json:"big,omitempty"` // pub: the payload exceeds the message size limit of node b
}

type C18Actor struct {
	Role   string  `json:"role"` // producer | publisher (holds the token) | intruder (wrong token) | consumer
	Remote bool    `json:"remote"`
	Third  bool    `json:"third,omitempty"` // remote consumer on the third node c instead of b
	Link   bool    `json:"link"`            // consumer: subscribe by link instead of monitor
	Ops    []C18Op `json:"ops"`
}

type C18Case struct {
	Buffer int        `json:"buffer"`
	Notify bool       `json:"notify"`
	Actors []C18Actor `json:"actors"` // actor 0 is the producer
	// BLimit: node b accepts messages up to this size only (0 = no limit): publications marked Big are
	// refused for b at the sender, everybody else still gets them
	BLimit int `json:"b_limit,omitempty"`
	// Pool (> 1): the connections between the nodes are pools of that many TCP links, Skew[i]
	// multiplies the latency of the i-th link created: the frames of one producer must still
	// travel over one link
	Pool int   `json:"pool,omitempty"`
	Skew []int `json:"skew,omitempty"`
	// Early: every consumer first tries to subscribe before the event is registered (must be
	// refused and leave nothing behind: the later subscriptions work as usual)
	Early bool `json:"early,omitempty"`
}

type c18 struct{}

func init() { Register(c18{}) }

func (c18) ID() string    { return "C18" }
func (c18) Level() string { return "exploration" }
func (c18) NewCase() any  { return &C18Case{} }
func (c18) Nontrivial() []string {
	return []string{"publication-delivered", "subscribe-raced-publication", "buffer-replayed", "wrong-token-refused", "event-ended-with-subscribers", "remote-subscriber", "producer-notified"}
}
func (c18) Rule() string {
	return "case = one event (buffer 0-4, Notify on/off) registered by a producer actor; the producer and an optional second token holder publish numbered messages, an intruder publishes with a wrong token, " +
		"1-4 consumers on the same node and (in part of the runs) on a second node connected over simulated TCP subscribe by link or monitor, unsubscribe and re-subscribe, while the producer publishes, unregisters the event or terminates; all actors run concurrently. " +
		"Oracle on step-stamped intervals: a publication made after a subscription returned (and before it was removed / the event ended) arrives exactly once and in order; one that overlapped the subscription appears at most once (in the returned buffer or in the stream); " +
		"the returned buffer equals the last min(N, published) numbers when nothing overlapped; a wrong token is refused and never delivered; each subscriber gets exactly one exit/down when the event ends; with Notify the producer's start/stop notifications are consistent with the subscriber count. " +
		"Non-trivial = a publication was delivered, a subscription raced a publication, a buffer was replayed, or the event ended with subscribers; distinct = distinct (schedule, history) hashes."
}
func (c18) Components() ([]string, []string) {
	return []string{"node RouteSendEvent / RouteLinkEvent / RouteMonitorEvent / unregisterEvent", "gen target manager", "net/proto event frames (remote subscribers)"},
		[]string{"TCP (simnet) when a second node takes part", "registrar (static table)", "default logger disabled"}
}

func (c18) Generate(r *simkit.Rand, tier string) any {
	c := &C18Case{Buffer: simkit.Pick(r, 0, 0, 1, 2, 4), Notify: r.Bool()}
	maxOps := 5
	if tier == "thorough" {
		maxOps = 8
	}
	prod := C18Actor{Role: "producer"}
	for i, n := 0, r.Range(2, maxOps); i < n; i++ {
		prod.Ops = append(prod.Ops, C18Op{Kind: "pub", N: r.Range(1, 3)})
	}
	switch r.Intn(4) {
	case 0:
		prod.Ops = append(prod.Ops, C18Op{Kind: "unregister"})
	case 1:
		prod.Ops = append(prod.Ops, C18Op{Kind: "die"})
	}
	c.Actors = append(c.Actors, prod)
	if r.Chance(0.3) {
		a := C18Actor{Role: "publisher"}
		for i, n := 0, r.Range(1, 3); i < n; i++ {
			a.Ops = append(a.Ops, C18Op{Kind: "pub", N: r.Range(1, 2)})
		}
		c.Actors = append(c.Actors, a)
	}
	if r.Chance(0.3) {
		c.Actors = append(c.Actors, C18Actor{Role: "intruder", Ops: []C18Op{{Kind: "badpub", N: 1}, {Kind: "badpub", N: 1}}})
	}
	if r.Chance(0.3) {
		// a process that tries to register (and to unregister) the name the producer owns, is refused, and terminates
		sq := C18Actor{Role: "squatter"}
		for i, n := 0, r.Range(1, 2); i < n; i++ {
			sq.Ops = append(sq.Ops, C18Op{Kind: simkit.Pick(r, "regdup", "regdup", "unregdup")})
		}
		if r.Chance(0.8) {
			sq.Ops = append(sq.Ops, C18Op{Kind: "die"})
		}
		c.Actors = append(c.Actors, sq)
		// the event lives for the whole run (a registration that succeeds after the producer gave
		// the name up would start a second incarnation of the event, which the oracle does not model)
		po := c.Actors[0].Ops
		if k := po[len(po)-1].Kind; k == "unregister" || k == "die" {
			c.Actors[0].Ops = po[:len(po)-1]
		}
		if r.Bool() {
			// keep the producer busy after the squatter is gone
			c.Actors[0].Ops = append([]C18Op{{Kind: "pub", N: 1}, {Kind: "pause"}}, c.Actors[0].Ops...)
		}
	}
	remote := r.Chance(0.35)
	three := remote && r.Bool()
	if three && r.Chance(0.6) {
		c.BLimit = 400
		// no buffer: the answer to a subscription would carry the buffered oversized publications
		// and be refused for node b as a whole (the subscriber times out), which the oracle does not model
		c.Buffer = 0
		for ai := range c.Actors {
			for oi := range c.Actors[ai].Ops {
				if c.Actors[ai].Ops[oi].Kind == "pub" && r.Chance(0.4) {
					c.Actors[ai].Ops[oi].Big = true
				}
			}
		}
	}
	if remote && r.Bool() {
		c.Pool = r.Range(2, 4)
		for i := 0; i < 12; i++ {
			c.Skew = append(c.Skew, simkit.Pick(r, 1, 1, 2, 10, 100))
		}
	}
	c.Early = r.Chance(0.3)
	for i, n := 0, r.Range(1, 4); i < n; i++ {
		a := C18Actor{Role: "consumer", Link: r.Bool(), Remote: remote && r.Bool()}
		a.Third = a.Remote && three && r.Bool()
		a.Ops = append(a.Ops, C18Op{Kind: "sub"})
		for j, m := 0, r.Range(0, 2); j < m; j++ {
			a.Ops = append(a.Ops, C18Op{Kind: "unsub"}, C18Op{Kind: "sub"})
		}
		if r.Chance(0.3) {
			a.Ops = append(a.Ops, C18Op{Kind: "unsub"})
		}
		c.Actors = append(c.Actors, a)
	}
	return c
}

func (c18) Shrink(cc any) []any {
	c := cc.(*C18Case)
	var out []any
	for i := 1; i < len(c.Actors); i++ {
		n := cloneJSON(c)
		n.Actors = dropAt(n.Actors, i)
		out = append(out, n)
	}
	for i := range c.Actors {
		for j := range c.Actors[i].Ops {
			if len(c.Actors[i].Ops) > 1 {
				n := cloneJSON(c)
				n.Actors[i].Ops = dropAt(n.Actors[i].Ops, j)
				out = append(out, n)
			}
		}
	}
	for i := range c.Actors {
		if c.Actors[i].Remote {
			n := cloneJSON(c)
			n.Actors[i].Remote, n.Actors[i].Third = false, false
			out = append(out, n)
		}
	}
	if c.Pool > 1 {
		n := cloneJSON(c)
		n.Pool, n.Skew = 0, nil
		out = append(out, n)
	}
	if c.Early {
		n := cloneJSON(c)
		n.Early = false
		out = append(out, n)
	}
	return out
}

func (c18) Sched(r *simkit.Rand, c any) simkit.SchedSpec {
	s := DefaultSched(r, 1500)
	s.MaxSteps = 2000000
	return s
}

type c18Pub struct {
	big      bool
	num      int
	by       int // index of the publishing actor
	inv, ret int
	err      error
}

type c18Sub struct {
	inv, ret int
	buf      []int
	err      error
	unsubInv int
	unsubRet int
	unsubbed bool
}

// c18Msg is the payload of a publication that is made too large for node b.
type c18Msg struct {
	N   int
	Pad string
}

func init() {
	if err := edf.RegisterTypeOf(c18Msg{}); err != nil && err != gen.ErrTaken {
		panic(err)
	}
}

func c18Num(m any) (int, bool) {
	switch v := m.(type) {
	case int:
		return v, true
	case c18Msg:
		return v.N, true
	}
	return 0, false
}

type c18Recv struct {
	num  int
	step int
}

func (c18) Run(e *simkit.Env, cc any) {
	c := cc.(*C18Case)
	needRemote := false
	for _, a := range c.Actors {
		if a.Remote {
			needRemote = true
		}
	}
	needThird := false
	for _, a := range c.Actors {
		if a.Third {
			needThird = true
		}
	}
	var a, b, cn gen.Node
	if needRemote {
		sn := simkit.NewSimNet(e)
		sn.Segment = 1
		if c.Pool > 1 {
			sn.Skew = c.Skew
			e.Probe("pooled-links-with-skew")
		}
		a = simkit.StartNetNode(e, sn, simkit.NetNodeOptions{Name: "a@h1", Cookie: "k", PoolSize: c.Pool})
		b = simkit.StartNetNode(e, sn, simkit.NetNodeOptions{Name: "b@h2", Cookie: "k", MaxMessageSize: c.BLimit, PoolSize: c.Pool})
		if needThird {
			cn = simkit.StartNetNode(e, sn, simkit.NetNodeOptions{Name: "c@h3", Cookie: "k", PoolSize: c.Pool})
			if cn == nil {
				return
			}
			e.Probe("subscribers-on-two-remote-nodes")
		}
		e.Probe("remote-subscriber")
	} else {
		a = simkit.StartLocalNode(e, "a@h1", nil)
	}
	if a == nil || (needRemote && b == nil) {
		return
	}
	defer func() {
		simkit.StopNode(e, a, false, 0)
		if b != nil {
			simkit.StopNode(e, b, false, 0)
		}
		if cn != nil {
			simkit.StopNode(e, cn, false, 0)
		}
	}()
	ev := gen.Event{Name: "ev", Node: "a@h1"}
	var mu sync.Mutex
	var pubs []c18Pub
	var token gen.Ref
	registered := make(chan struct{})
	pres := make(chan struct{}, 16)
	connected := false
	connect := func() bool {
		if !needRemote || connected {
			return true
		}
		connected = true
		if _, err := b.Network().GetNode("a@h1"); err != nil {
			e.Fail("C18/unexpected-failure", "nodes could not connect: %v", err)
			return false
		}
		if cn != nil {
			if _, err := cn.Network().GetNode("a@h1"); err != nil {
				e.Fail("C18/unexpected-failure", "nodes could not connect: %v", err)
				return false
			}
		}
		return true
	}
	nextNum := 0
	endStart, endDone := -1, -1 // event end interval
	endReason := ""
	starts, stops := 0, 0
	type consumerState struct {
		subs  []*c18Sub
		recv  []c18Recv
		ends  []string
		link  bool
		alive bool
	}
	cons := map[int]*consumerState{}
	publish := func(by int, p *Probe, tok gen.Ref, count int, big bool) {
		for i := 0; i < count; i++ {
			mu.Lock()
			nextNum++
			num := nextNum
			mu.Unlock()
			inv := e.Step()
			var err error
			if big {
				err = p.SendEvent("ev", tok, c18Msg{N: num, Pad: strings.Repeat("x", 3*c.BLimit)})
				e.Probe("publication-too-large-for-one-node")
			} else {
				err = p.SendEvent("ev", tok, num)
			}
			mu.Lock()
			pubs = append(pubs, c18Pub{num: num, by: by, inv: inv, ret: e.Step(), err: err, big: big})
			mu.Unlock()
			e.Logf("publish %d -> %v", num, err)
		}
	}
	dones := make([]chan struct{}, len(c.Actors))
	pids := make([]gen.PID, len(c.Actors))
	for ai, ac := range c.Actors {
		ai, ac := ai, ac
		dones[ai] = make(chan struct{})
		h := &Hooks{Name: fmt.Sprintf("%s%d", ac.Role, ai), Env: e, Trap: true, Slow: true}
		switch ac.Role {
		case "producer":
			h.Message = func(p *Probe, from gen.PID, m any) error {
				switch v := m.(type) {
				case string:
					switch v {
					case "register":
						tok, err := p.RegisterEvent("ev", gen.EventOptions{Buffer: c.Buffer, Notify: c.Notify})
						if err != nil {
							e.Fail("C18/unexpected-failure", "RegisterEvent: %v", err)
						}
						token = tok
						close(registered)
					case "go":
						defer close(dones[ai])
						for _, op := range ac.Ops {
							switch op.Kind {
							case "pub":
								publish(ai, p, token, op.N, op.Big && c.BLimit > 0)
							case "pause":
								e.Sleep(50 * time.Millisecond)
							case "unregister":
								mu.Lock()
								endStart = e.Step()
								endReason = "unregistered"
								mu.Unlock()
								err := p.UnregisterEvent("ev")
								mu.Lock()
								endDone = e.Step()
								mu.Unlock()
								e.Logf("unregister event -> %v", err)
							case "die":
								mu.Lock()
								endStart = e.Step()
								endReason = "boom-producer"
								mu.Unlock()
								e.Logf("producer dies")
								return fmt.Errorf("boom-producer")
							}
						}
					}
				case gen.MessageEventStart:
					mu.Lock()
					starts++
					mu.Unlock()
					e.Probe("producer-notified")
				case gen.MessageEventStop:
					mu.Lock()
					stops++
					mu.Unlock()
				}
				return nil
			}
			h.Terminate = func(p *Probe, reason error) {
				mu.Lock()
				endDone = e.Step()
				mu.Unlock()
			}
		case "publisher", "intruder":
			h.Message = func(p *Probe, from gen.PID, m any) error {
				if m != "go" {
					return nil
				}
				defer close(dones[ai])
				for _, op := range ac.Ops {
					if ac.Role == "publisher" {
						publish(ai, p, token, op.N, op.Big && c.BLimit > 0)
						continue
					}
					bad := token
					bad.ID[0] ^= 0x5a5a
					inv := e.Step()
					err := p.SendEvent("ev", bad, -1)
					e.Logf("intruder publish -> %v [%d]", err, inv)
					mu.Lock()
					ended := endStart >= 0
					mu.Unlock()
					if err == nil {
						e.Fail("C18/wrong-token-accepted", "SendEvent with a token that is not the registration token succeeded")
					} else if !errors.Is(err, gen.ErrEventOwner) && !(ended && errors.Is(err, gen.ErrEventUnknown)) {
						e.Fail("C18/wrong-token-error", "SendEvent with a wrong token returned %v", err)
					} else {
						e.Probe("wrong-token-refused")
					}
				}
				return nil
			}
		case "squatter":
			h.Message = func(p *Probe, from gen.PID, m any) error {
				if m != "go" {
					return nil
				}
				defer close(dones[ai])
				for _, po := range c.Actors[0].Ops {
					if po.Kind == "unregister" || po.Kind == "die" {
						return nil // see Generate
					}
				}
				for _, op := range ac.Ops {
					mu.Lock()
					endedBefore := endStart >= 0
					mu.Unlock()
					switch op.Kind {
					case "regdup":
						_, err := p.RegisterEvent("ev", gen.EventOptions{})
						e.Logf("squatter register -> %v", err)
						if err == nil && !endedBefore {
							mu.Lock()
							ended := endStart >= 0
							mu.Unlock()
							if !ended {
								e.Fail("C18/name-registered-twice", "a second process registered the event name while the producer's registration was in place")
							}
							return nil
						}
						e.Probe("duplicate-registration-refused")
					case "unregdup":
						err := p.UnregisterEvent("ev")
						e.Logf("squatter unregister -> %v", err)
						if err == nil {
							e.Fail("C18/unregistered-by-stranger", "a process that does not own the event unregistered it")
							return nil
						}
					case "die":
						e.Logf("squatter dies")
						return fmt.Errorf("boom-squatter")
					}
				}
				return nil
			}
		case "consumer":
			st := &consumerState{link: ac.Link, alive: true}
			cons[ai] = st
			h.Message = func(p *Probe, from gen.PID, m any) error {
				switch v := m.(type) {
				case string:
					if v == "pre" {
						var err error
						if ac.Link {
							_, err = p.LinkEvent(ev)
						} else {
							_, err = p.MonitorEvent(ev)
						}
						e.Logf("consumer%d subscribes before the event is registered -> %v", ai, err)
						if err == nil {
							e.Fail("C18/subscribed-to-unknown-event", "consumer %d (remote=%v): a subscription to an event that is not registered yet succeeded", ai, ac.Remote)
						}
						pres <- struct{}{}
						return nil
					}
					if v != "go" {
						return nil
					}
					defer close(dones[ai])
					for _, op := range ac.Ops {
						switch op.Kind {
						case "sub":
							s := &c18Sub{inv: e.Step()}
							var last []gen.MessageEvent
							if ac.Link {
								last, s.err = p.LinkEvent(ev)
							} else {
								last, s.err = p.MonitorEvent(ev)
							}
							s.ret = e.Step()
							for _, me := range last {
								if n, ok := c18Num(me.Message); ok {
									s.buf = append(s.buf, n)
								}
							}
							mu.Lock()
							st.subs = append(st.subs, s)
							mu.Unlock()
							e.Logf("consumer%d subscribe -> %v buffer=%v [%d,%d]", ai, s.err, s.buf, s.inv, s.ret)
						case "unsub":
							mu.Lock()
							var cur *c18Sub
							if n := len(st.subs); n > 0 && st.subs[n-1].err == nil && !st.subs[n-1].unsubbed {
								cur = st.subs[n-1]
							}
							mu.Unlock()
							if cur == nil {
								continue
							}
							inv := e.Step()
							var err error
							if ac.Link {
								err = p.UnlinkEvent(ev)
							} else {
								err = p.DemonitorEvent(ev)
							}
							mu.Lock()
							if err == nil {
								cur.unsubbed, cur.unsubInv, cur.unsubRet = true, inv, e.Step()
							}
							mu.Unlock()
							e.Logf("consumer%d unsubscribe -> %v", ai, err)
						}
					}
				case gen.MessageExitEvent:
					mu.Lock()
					st.ends = append(st.ends, c04Reason(v.Reason))
					mu.Unlock()
				case gen.MessageDownEvent:
					mu.Lock()
					st.ends = append(st.ends, c04Reason(v.Reason))
					mu.Unlock()
				}
				return nil
			}
			h.Event = func(p *Probe, me gen.MessageEvent) error {
				n, _ := c18Num(me.Message)
				mu.Lock()
				st.recv = append(st.recv, c18Recv{num: n, step: e.Step()})
				mu.Unlock()
				e.Logf("consumer%d got %d", ai, n)
				return nil
			}
		}
		node := a
		if ac.Remote {
			node = b
			if ac.Third {
				node = cn
			}
		}
		// consumers are spawned by a parent process (exit signals stamped as coming from the node core would not be trapped by a top-level actor)
		pid, err := spawnUnder(e, node, h)
		if err != nil {
			e.Infra("spawn: " + err.Error())
			return
		}
		pids[ai] = pid
	}
	if c.Early {
		if !connect() {
			return
		}
		k := 0
		for ai := range c.Actors {
			if c.Actors[ai].Role != "consumer" {
				continue
			}
			node := a
			if c.Actors[ai].Remote {
				node = b
				if c.Actors[ai].Third {
					node = cn
				}
			}
			node.Send(pids[ai], "pre")
			k++
		}
		for ; k > 0; k-- {
			select {
			case <-pres:
			case <-time.After(time.Minute):
				e.Fail("C18/unexpected-failure", "a subscription to an unregistered event did not return within a simulated minute")
				return
			}
			e.Gate("harness:pre-done")
		}
		if e.Failed() {
			return
		}
		e.Probe("refused-subscription-before-registration")
	}
	a.Send(pids[0], "register")
	if !e.WaitChan(registered, time.Minute) {
		e.Fail("C18/unexpected-failure", "the producer did not register its event")
		return
	}
	if !connect() {
		return
	}
	for ai := range c.Actors {
		ai := ai
		node := a
		if c.Actors[ai].Remote {
			node = b
			if c.Actors[ai].Third {
				node = cn
			}
		}
		e.Go(fmt.Sprintf("kick%d", ai), func() {
			node.Send(pids[ai], "go")
			e.WaitChan(dones[ai], 10*time.Minute)
		})
	}
	if !e.WaitClients(20 * time.Minute) {
		e.Fail("C18/actor-stuck", "an actor did not finish its operations")
		return
	}
	e.Settle(15 * time.Second)
	if e.Failed() {
		return
	}

	// ---- oracle ----
	if ps := e.Panics(); len(ps) > 0 {
		e.Fail("C18/panic", "a panic was recovered inside the node while events were published and subscribed concurrently: %s", ps[0])
		return
	}
	mu.Lock()
	defer mu.Unlock()
	okPubs := []c18Pub{}
	for _, p := range pubs {
		if p.err == nil {
			okPubs = append(okPubs, p)
		} else if endStart < 0 {
			e.Fail("C18/publish-refused", "publication %d with the registration token failed although the event exists: %v", p.num, p.err)
			return
		}
	}
	eventEnded := endStart >= 0
	// a publication beyond node b's size limit is refused for b at the sender: subscribers there may miss it
	excused := func(ai int, p c18Pub) bool {
		return p.big && c.Actors[ai].Remote && !c.Actors[ai].Third
	}
	for ai, st := range cons {
		// stream: increasing, no duplicates
		seen := map[int]int{}
		lastN := 0
		for _, r := range st.recv {
			seen[r.num]++
			if seen[r.num] > 1 {
				e.Fail("C18/delivered-twice", "consumer %d received publication %d twice", ai, r.num)
				return
			}
			if r.num == -1 {
				e.Fail("C18/wrong-token-delivered", "consumer %d received the intruder's publication", ai)
				return
			}
			_ = lastN
		}
		// per-publisher order: numbers are allocated globally in publish order per actor; check order per actor by comparing invoke steps
		for i := 1; i < len(st.recv); i++ {
			pi, pj := findPub(pubs, st.recv[i-1].num), findPub(pubs, st.recv[i].num)
			if pi != nil && pj != nil && pj.ret < pi.inv {
				e.Fail("C18/out-of-order", "consumer %d received publication %d after %d although %d was published (steps %d-%d) strictly before %d (steps %d-%d)", ai, pj.num, pi.num, pj.num, pj.inv, pj.ret, pi.num, pi.inv, pi.ret)
				return
			}
		}
		active := false
		for si, s := range st.subs {
			if s.err != nil {
				if !eventEnded {
					e.Fail("C18/subscribe-refused", "consumer %d: subscription to the existing event failed: %v", ai, s.err)
					return
				}
				continue
			}
			inBuf := map[int]bool{}
			for i, n := range s.buf {
				inBuf[n] = true
				if i > 0 {
					// out of order only if the later entry was published strictly before the earlier one
					pa, pb := findPub(pubs, s.buf[i-1]), findPub(pubs, s.buf[i])
					if pa != nil && pb != nil && pb.ret < pa.inv {
						e.Fail("C18/buffer-order", "consumer %d: the buffer returned by the subscription is not in publication order: %v", ai, s.buf)
						return
					}
				}
			}
			if len(s.buf) > c.Buffer {
				e.Fail("C18/buffer-size", "consumer %d: the subscription returned %d buffered messages, the event keeps %d", ai, len(s.buf), c.Buffer)
				return
			}
			if len(s.buf) > 0 {
				e.Probe("buffer-replayed")
			}
			// end of this subscription: unsubscribe or next subscription or event end
			endInv, endRet := 1<<30, 1<<30
			if s.unsubbed {
				endInv, endRet = s.unsubInv, s.unsubRet
			}
			if eventEnded && endStart < endInv {
				endInv = endStart
				if endDone >= 0 {
					endRet = min(endRet, endDone)
				}
			}
			// continuity: whatever this subscription saw first of one publisher (in the returned
			// buffer or in the stream), it also sees every later publication of that publisher
			// made before the subscription ends
			{
				sawNum := map[int]bool{}
				for _, n := range s.buf {
					sawNum[n] = true
				}
				// a received publication is attributed to this subscription only if it cannot have
				// been delivered through an earlier one (it began after that one was removed)
				prevEnd := 0
				for _, ps := range st.subs[:si] {
					if ps.err == nil {
						prevEnd = 1 << 30
						if ps.unsubbed {
							prevEnd = ps.unsubRet
						}
					}
				}
				gotAtAll := map[int]bool{}
				for _, r := range st.recv {
					gotAtAll[r.num] = true
					if q := findPub(pubs, r.num); q != nil && q.inv >= prevEnd && r.step >= s.inv {
						sawNum[r.num] = true
					}
				}
				first := map[int]int{}
				for _, p := range okPubs {
					if sawNum[p.num] {
						if f, ok := first[p.by]; !ok || p.num < f {
							first[p.by] = p.num
						}
					}
				}
				for _, p := range okPubs {
					f, ok := first[p.by]
					if ok && p.num > f && p.ret < endInv && !sawNum[p.num] && !gotAtAll[p.num] && !excused(ai, p) {
						tag := ""
						if c.Actors[ai].Remote && p.inv < s.ret {
							// the subscriber's node registers the subscriber locally only when the
							// answer of the producer's node has arrived: a publication sent in
							// between can reach that node first (known finding)
							tag = " [published while the remote subscription call was in progress]"
						}
						e.Fail("C18/gap", "consumer %d (%s, remote=%v): subscription (steps %d-%d, buffer %v) saw publication %d of actor %d but neither its buffer nor its stream has the later publication %d (steps %d-%d) made before the subscription ended (%d)%s",
							ai, map[bool]string{true: "link", false: "monitor"}[st.link], c.Actors[ai].Remote, s.inv, s.ret, s.buf, f, p.by, p.num, p.inv, p.ret, endInv, tag)
						return
					}
				}
			}
			var before []int
			overlapSub := false
			for _, p := range okPubs {
				nrecv := 0
				for _, r := range st.recv {
					if r.num == p.num {
						nrecv++
					}
				}
				_ = si
				switch {
				case p.ret < s.inv:
					before = append(before, p.num)
				case p.inv > s.ret && p.ret < endInv:
					// squarely inside the subscription: exactly once in the stream, never in the buffer
					if inBuf[p.num] {
						e.Fail("C18/buffer-from-the-future", "consumer %d: publication %d was made after the subscription returned but is in its buffer", ai, p.num)
						return
					}
					if nrecv == 0 && excused(ai, p) {
						e.Probe("oversized-publication-skipped-for-limited-node")
						continue
					}
					if nrecv != 1 {
						e.Fail("C18/missed-publication", "consumer %d (%s, remote=%v): publication %d (steps %d-%d) was made while the subscription (steps %d-%d, ended at %d) was in place but was received %d times",
							ai, map[bool]string{true: "link", false: "monitor"}[st.link], c.Actors[ai].Remote, p.num, p.inv, p.ret, s.inv, s.ret, endInv, nrecv)
						return
					}
					e.Probe("publication-delivered")
				case p.inv <= s.ret && p.ret >= s.inv:
					overlapSub = true
					e.Probe("subscribe-raced-publication")
					if inBuf[p.num] && nrecv > 0 {
						// handed over twice (buffer and stream): the property only speaks about
						// publications made after the subscription, so this is counted, not reported
						e.Probe("raced-publication-in-buffer-and-stream")
					}
				}
			}
			if !overlapSub && !c.Actors[ai].Remote {
				want := before
				if len(want) > c.Buffer {
					want = want[len(want)-c.Buffer:]
				}
				// publications from concurrent publishers that completed before the subscription are totally ordered by the buffer; compare as sets and order
				if !sameInts(want, s.buf) && onePublisherOnly(c) {
					e.Fail("C18/buffer-content", "consumer %d: the subscription returned buffer %v, the last %d publications before it are %v", ai, s.buf, c.Buffer, want)
					return
				}
			}
			active = !s.unsubbed
		}
		// end notification
		if eventEnded {
			want := 0
			if active {
				want = 1
			}
			// a subscription that succeeded and was not removed is notified exactly once, also when
			// the request raced with the end of the event (it either fails or is notified); only a
			// removal that overlapped the end leaves both outcomes open
			overl := false
			for _, s := range st.subs {
				if s.unsubbed && s.unsubRet >= endStart && (endDone < 0 || s.unsubInv <= endDone) {
					overl = true
				}
			}
			if active || !overl {
				if len(st.ends) != want {
					e.Fail("C18/end-notification", "consumer %d: subscribed=%v when the event ended (%s) and got %d exit/down notifications %v", ai, active, endReason, len(st.ends), st.ends)
					return
				}
				if want == 1 {
					e.Probe("event-ended-with-subscribers")
					if st.ends[0] != endReason && !(c.Actors[ai].Remote && st.ends[0] != "") {
						e.Fail("C18/end-reason", "consumer %d: the event ended with %q but the notification says %q", ai, endReason, st.ends[0])
						return
					}
				}
			} else if len(st.ends) > 1 {
				e.Fail("C18/end-notification", "consumer %d got %d end notifications", ai, len(st.ends))
				return
			}
		} else if len(st.ends) != 0 {
			e.Fail("C18/end-notification", "consumer %d got an exit/down notification although the event still exists", ai)
			return
		}
	}
	if c.Notify && !eventEnded {
		activeNow := 0
		for _, st := range cons {
			if n := len(st.subs); n > 0 && st.subs[n-1].err == nil && !st.subs[n-1].unsubbed {
				activeNow++
			}
		}
		want := 0
		if activeNow > 0 {
			want = 1
		}
		if starts-stops != want {
			e.Fail("C18/notify-balance", "with %d active subscribers at quiescence the producer has received %d start and %d stop notifications", activeNow, starts, stops)
			return
		}
	}
}

func findPub(pubs []c18Pub, num int) *c18Pub {
	for i := range pubs {
		if pubs[i].num == num {
			return &pubs[i]
		}
	}
	return nil
}

func sameInts(a, b []int) bool {
	if len(a) != len(b) {
		return false
	}
	for i := range a {
		if a[i] != b[i] {
			return false
		}
	}
	return true
}

func onePublisherOnly(c *C18Case) bool {
	for _, a := range c.Actors {
		if a.Role == "publisher" {
			return false
		}
	}
	return true
}

// spawnUnder spawns a probe as the child of a helper process of the node.
func spawnUnder(e *simkit.Env, n gen.Node, h *Hooks) (gen.PID, error) {
	var pid gen.PID
	var serr error
	done := make(chan struct{})
	ph := &Hooks{Name: "parent-of-" + h.Name, Env: e, Trap: true}
	ph.Message = func(p *Probe, from gen.PID, m any) error {
		if m == "spawn" {
			pid, serr = p.Spawn(ProbeFactory(h), gen.ProcessOptions{})
			close(done)
		}
		return nil
	}
	pp, err := n.Spawn(ProbeFactory(ph), gen.ProcessOptions{})
	if err != nil {
		return pid, err
	}
	n.Send(pp, "spawn")
	if !e.WaitChan(done, time.Minute) {
		return pid, fmt.Errorf("helper did not spawn")
	}
	return pid, serr
}
