package props

import (
	"errors"
	"fmt"
	"os"
	"sync"
	"time"

	"ergo.services/ergo/gen"

	"verifsim/simkit"
)

// C14 Remote failure detection: node down, remote termination, incarnations.

type C14Rel struct {
	Kind string `json:"kind"` // link | monitor
	What string `json:"what"` // pid | name | alias | event | node
}

type C14Case struct {
	Pool      int      `json:"pool"`
	Rels      []C14Rel `json:"rels"`
	PreTerm   bool     `json:"pre_term"`    // the remote target terminates (normally) before the fault
	InFlight  string   `json:"in_flight"`   // "" | call | important
	Fault     string   `json:"fault"`       // cutall | cutone | stop | crash | restart | partition | termcrash | netstop (the observers' node stops its network)
	FaultAtMs int      `json:"fault_at_ms"` // relative to the start of the in-flight request
	RestartMs int      `json:"restart_ms"`  // restart: delay before the node comes back
	Segment   bool     `json:"segment"`
	// TermGapMs (fault termcrash): the target terminates, B crashes this many ms later (the terminate
	// message and the loss of the connection reach A at about the same time); -1: B crashes at the
	// very moment the first bytes sent after the termination are delivered to A (the handling of the
	// terminate message and the handling of the lost connection are then interleaved by the scheduler)
	TermGapMs int `json:"term_gap_ms,omitempty"`
	// Phase2 (faults restart, partition): once the connection is back a second observer on A relates to
	// the same name and event, then the target terminates
	Phase2 bool `json:"phase2,omitempty"`
	// Reverse: a process of A ("ltarget": pid, name, alias, event) is linked / monitored by a process
	// on B and, with the same kinds, by a bystander on A. Whatever happens to B, the bystander's
	// relations are not touched: when ltarget is killed at the end it gets exactly one notification each
	Reverse []C14Rel `json:"reverse,omitempty"`
	// Resub: a further process of A monitors (or links) the node b@h2 and subscribes again from inside
	// the handler of every node-down notification it gets. While b@h2 is gone for good (stop, crash) a
	// renewed subscription either fails or is itself followed by a notification
	Resub string `json:"resub,omitempty"` // "" | monitor | link
	// MapName: a@h1 reaches b@h2 over a static route with an atom mapping: the registered name
	// "target" of b is known as "tgt" on a (requests carry the mapped name, notifications are mapped back)
	MapName bool `json:"map_name,omitempty"`
}

type c14 struct{}

func init() { Register(c14{}) }

func (c14) ID() string    { return "C14" }
func (c14) Level() string { return "fault_enumeration" }
func (c14) NewCase() any  { return &C14Case{} }
func (c14) Nontrivial() []string {
	return []string{"node-down-notified", "remote-reason-notified", "in-flight-request-failed", "incarnation-refused", "connection-survived-link-cut"}
}
func (c14) Rule() string {
	return "case = two real nodes over simulated TCP (pool 1-3); observers on A hold a drawn set of links/monitors on a process of B (pid, registered name, alias, event) and on node B itself, optionally with a call or an important send in flight to a process that never answers; " +
		"fault enumerated over kind (all links cut, one of several links cut, B stopped gracefully, B crashed, B crashed and restarted under the same name after 0.2-5 s, partition) x instant (0-6 s into the in-flight request) x whether the target terminated before the fault. " +
		"Oracle: every relation held when the connection was lost yields exactly one exit/down with the 'no connection' reason (node targets: node down/exit), a target that terminated earlier yields its remote reason once, nothing arrives without a relation, " +
		"the in-flight request returns within its timeout, a single link cut does not take the connection down, and identifiers of the previous incarnation are refused after a restart and never reach a process of the new one. " +
		"Non-trivial = a node-down or remote-reason notification was checked, an in-flight request failed, or an old identifier was refused; distinct = distinct (schedule, history) hashes."
}
func (c14) Components() ([]string, []string) {
	return []string{"node/network.go connection registry and node-down fan-out", "net/proto link loss / redial / terminate frames", "gen target manager CleanupNode", "net/handshake"},
		[]string{"TCP (simnet: cuts, refused dials)", "registrar (static table)", "default logger disabled"}
}

func (c14) Generate(r *simkit.Rand, tier string) any {
	c := &C14Case{Pool: r.Range(1, 3), PreTerm: r.Chance(0.25), InFlight: simkit.Pick(r, "", "call", "call", "important"),
		Fault: simkit.Pick(r, "cutall", "cutone", "stop", "crash", "restart", "restart", "partition", "partition", "termcrash", "termcrash", "netstop", "halfopen"), Segment: r.Bool()}
	c.TermGapMs = simkit.Pick(r, -1, -1, -1, 0, 1, 2, 3, 4, 5, 7)
	c.Phase2 = r.Chance(0.6)
	if c.Fault == "termcrash" {
		c.PreTerm = false
	}
	c.FaultAtMs = simkit.Pick(r, 0, 1, 2, 5, 50, 500, 2000, 4999, 5000, 5001, 6000)
	c.RestartMs = simkit.Pick(r, 200, 900, 1100, 3000, 5000)
	kinds := []C14Rel{}
	for _, what := range []string{"pid", "name", "alias", "event", "node"} {
		for _, k := range []string{"link", "monitor"} {
			if r.Chance(0.45) {
				kinds = append(kinds, C14Rel{Kind: k, What: what})
			}
		}
	}
	if len(kinds) == 0 {
		kinds = append(kinds, C14Rel{Kind: "monitor", What: "pid"})
	}
	c.Rels = kinds
	if r.Chance(0.4) {
		c.Resub = simkit.Pick(r, "monitor", "link")
	}
	c.MapName = r.Chance(0.3)
	if r.Chance(0.4) {
		for _, what := range []string{"pid", "name", "alias", "event"} {
			if r.Chance(0.5) {
				c.Reverse = append(c.Reverse, C14Rel{Kind: simkit.Pick(r, "link", "monitor"), What: what})
			}
		}
	}
	if c.Fault == "cutone" && c.Pool < 2 {
		c.Pool = 2
	}
	return c
}

func (c14) Shrink(cc any) []any {
	c := cc.(*C14Case)
	var out []any
	for i := range c.Rels {
		if len(c.Rels) > 1 {
			n := cloneJSON(c)
			n.Rels = dropAt(n.Rels, i)
			out = append(out, n)
		}
	}
	if c.InFlight != "" {
		n := cloneJSON(c)
		n.InFlight = ""
		out = append(out, n)
	}
	for i := range c.Reverse {
		n := cloneJSON(c)
		n.Reverse = dropAt(n.Reverse, i)
		out = append(out, n)
	}
	if c.Resub != "" {
		n := cloneJSON(c)
		n.Resub = ""
		out = append(out, n)
	}
	if c.MapName {
		n := cloneJSON(c)
		n.MapName = false
		out = append(out, n)
	}
	if c.PreTerm {
		n := cloneJSON(c)
		n.PreTerm = false
		out = append(out, n)
	}
	if c.Segment {
		n := cloneJSON(c)
		n.Segment = false
		out = append(out, n)
	}
	return out
}

func (c14) Sched(r *simkit.Rand, c any) simkit.SchedSpec {
	s := DefaultSched(r, 2500)
	s.MaxSteps = 1500000
	return s
}

func (c14) Judge(cc any, res *simkit.Result) {
	c := cc.(*C14Case)
	if res.Violation == nil && res.Infra == "" && res.OverBudget {
		res.Violation = &simkit.Violation{Class: "C14/busy-loop", Step: res.Steps,
			Detail: fmt.Sprintf("after fault %q the system kept running without reaching quiescence for more than %d scheduling decisions (a reconnect loop that never gives up)", c.Fault, res.Steps)}
	}
}

type c14Note struct {
	link   bool
	what   string
	reason string
	step   int
}

func (c14) Run(e *simkit.Env, cc any) {
	c := cc.(*C14Case)
	sn := simkit.NewSimNet(e)
	sn.MinLatency, sn.Jitter = 2*time.Millisecond, time.Millisecond
	if c.Segment {
		sn.Segment = 1
	}
	a := simkit.StartNetNode(e, sn, simkit.NetNodeOptions{Name: "a@h1", Cookie: "k", PoolSize: c.Pool, Mod: func(o *gen.NodeOptions) {
		if c.MapName {
			// the same mapping whichever side dials
			for i := range o.Network.Acceptors {
				o.Network.Acceptors[i].AtomMapping = map[gen.Atom]gen.Atom{"tgt": "target"}
			}
		}
	}})
	b := simkit.StartNetNode(e, sn, simkit.NetNodeOptions{Name: "b@h2", Cookie: "k", PoolSize: c.Pool})
	if a == nil || b == nil {
		return
	}
	tName := gen.Atom("target") // the name of the target as the processes of a know it
	if c.MapName {
		tName = "tgt"
		if err := a.Network().AddRoute("b@h2", gen.NetworkRoute{Route: gen.Route{Host: "h2", Port: 15000}, AtomMapping: map[gen.Atom]gen.Atom{"tgt": "target"}}, 100); err != nil {
			e.Fail("C14/unexpected-failure", "AddRoute with an atom mapping: %v", err)
			return
		}
		e.Probe("atom-mapping-on-the-connection")
	}
	var b2 gen.Node
	defer func() {
		simkit.StopNode(e, a, false, 0)
		simkit.StopNode(e, b, false, 0)
		if b2 != nil {
			simkit.StopNode(e, b2, false, 0)
		}
	}()
	var mu sync.Mutex
	var notes []c14Note
	var tAlias gen.Alias
	// target on B
	th := &Hooks{Name: "target", Env: e}
	th.Message = func(p *Probe, from gen.PID, m any) error {
		switch m {
		case "setup":
			al, err := p.CreateAlias()
			if err != nil {
				e.Fail("C14/unexpected-failure", "CreateAlias: %v", err)
			}
			tAlias = al
			if _, err := p.RegisterEvent("tev", gen.EventOptions{}); err != nil {
				e.Fail("C14/unexpected-failure", "RegisterEvent: %v", err)
			}
		case "exit":
			return gen.TerminateReasonNormal
		}
		return nil
	}
	// a call to the target is accepted and never answered
	th.Call = func(p *Probe, from gen.PID, ref gen.Ref, req any) (any, error) { return nil, nil }
	tPID, err := b.SpawnRegister("target", ProbeFactory(th), gen.ProcessOptions{})
	if err != nil {
		e.Infra("spawn target: " + err.Error())
		return
	}
	// a second, quiet process on B: the addressee of the in-flight important send (bounded mailbox that is full)
	b.Send(tPID, "setup")
	e.Settle(time.Millisecond)

	// ---- a watcher of the node that subscribes again whenever it is told that the node is down ----
	if c.Resub != "" {
		var downs, okAgain int
		var lastErr error
		sub := func(p *Probe) error {
			if c.Resub == "link" {
				return p.LinkNode("b@h2")
			}
			return p.MonitorNode("b@h2")
		}
		rsReady := make(chan struct{})
		rh := &Hooks{Name: "resubscriber", Env: e, Trap: true}
		rh.Message = func(p *Probe, from gen.PID, m any) error {
			switch v := m.(type) {
			case string:
				if v == "relate" {
					if err := sub(p); err != nil {
						e.Fail("C14/unexpected-failure", "%s on the connected node b@h2 failed: %v", c.Resub, err)
					}
					close(rsReady)
				}
				return nil
			case gen.MessageDownNode:
				if v.Name != "b@h2" {
					return nil
				}
			case gen.MessageExitNode:
				if v.Name != "b@h2" {
					return nil
				}
			default:
				return nil
			}
			err := sub(p)
			mu.Lock()
			downs++
			lastErr = err
			if err == nil {
				okAgain++
			}
			mu.Unlock()
			e.Logf("resubscriber: node down notification %d, subscribing again -> %v", downs, err)
			return nil
		}
		rpid, err := spawnUnder(e, a, rh)
		if err != nil {
			e.Infra("spawn resubscriber: " + err.Error())
			return
		}
		a.Send(rpid, "relate")
		if !e.WaitChan(rsReady, time.Minute) {
			e.Fail("C14/unexpected-failure", "the resubscriber did not establish its relation within a simulated minute")
			return
		}
		defer func() {
			if e.Failed() {
				return
			}
			switch c.Fault {
			case "stop", "crash", "termcrash", "netstop":
			default:
				return // the node comes back (or never went away): renewed subscriptions are legitimate
			}
			e.Settle(10 * time.Second)
			if ps := e.InternalPanics(); len(ps) > 0 {
				e.Fail("C14/panic", "fault %s: code of the repository panicked in a process that subscribes to the lost node again: %s", c.Fault, ps[0])
				return
			}
			mu.Lock()
			d, k, le := downs, okAgain, lastErr
			mu.Unlock()
			if d != 1+k {
				e.Fail("C14/not-notified", "fault %s: b@h2 is gone for good; a process that %ss the node was notified %d time(s) and subscribed again from inside the notification handler each time: %d of these calls succeeded (last result: %v), so %d notification(s) are due", c.Fault, c.Resub, d, k, le, 1+k)
				return
			}
			e.Probe("resubscribed-on-node-down")
		}()
	}

	// ---- reverse relations: a target on A watched from B and by a bystander on A ----
	// restart: a process of b's first incarnation leaves an unanswered request behind at a process of a
	var heldFrom gen.PID
	var heldRef gen.Ref
	heldCh := make(chan struct{})
	if c.Fault == "restart" {
		hh := &Hooks{Name: "holder", Env: e}
		hh.Call = func(p *Probe, from gen.PID, ref gen.Ref, req any) (any, error) {
			if req == "hold-me" {
				heldFrom, heldRef = from, ref
				close(heldCh)
			}
			return nil, nil // answered later (never, as far as the caller is concerned)
		}
		if _, err := a.SpawnRegister("holder", ProbeFactory(hh), gen.ProcessOptions{}); err != nil {
			e.Infra("spawn holder: " + err.Error())
			return
		}
		ch := &Hooks{Name: "bcaller", Env: e}
		ch.Message = func(p *Probe, from gen.PID, m any) error {
			p.CallWithTimeout(gen.ProcessID{Name: "holder", Node: "a@h1"}, "hold-me", 5)
			return nil
		}
		cp, err := b.Spawn(ProbeFactory(ch), gen.ProcessOptions{})
		if err != nil {
			e.Infra("spawn bcaller: " + err.Error())
			return
		}
		b.Send(cp, "go")
		if !e.WaitChan(heldCh, time.Minute) {
			e.Fail("C14/unexpected-failure", "a request of a process on b@h2 did not reach its callee on a@h1 within a simulated minute")
			return
		}
	}
	if len(c.Reverse) > 0 {
		var lAlias gen.Alias
		lh := &Hooks{Name: "ltarget", Env: e}
		lh.Message = func(p *Probe, from gen.PID, m any) error {
			if m == "setup" {
				al, err := p.CreateAlias()
				if err != nil {
					e.Fail("C14/unexpected-failure", "CreateAlias: %v", err)
				}
				lAlias = al
				if _, err := p.RegisterEvent("lev", gen.EventOptions{}); err != nil {
					e.Fail("C14/unexpected-failure", "RegisterEvent: %v", err)
				}
			}
			return nil
		}
		lPID, err := a.SpawnRegister("ltarget", ProbeFactory(lh), gen.ProcessOptions{})
		if err != nil {
			e.Infra("spawn ltarget: " + err.Error())
			return
		}
		a.Send(lPID, "setup")
		e.Settle(time.Millisecond)
		relate := func(p *Probe, rl C14Rel) error {
			var err error
			switch {
			case rl.What == "event" && rl.Kind == "link":
				_, err = p.LinkEvent(gen.Event{Name: "lev", Node: "a@h1"})
			case rl.What == "event":
				_, err = p.MonitorEvent(gen.Event{Name: "lev", Node: "a@h1"})
			case rl.What == "pid" && rl.Kind == "link":
				err = p.LinkPID(lPID)
			case rl.What == "pid":
				err = p.MonitorPID(lPID)
			case rl.What == "name" && rl.Kind == "link":
				err = p.LinkProcessID(gen.ProcessID{Name: "ltarget", Node: "a@h1"})
			case rl.What == "name":
				err = p.MonitorProcessID(gen.ProcessID{Name: "ltarget", Node: "a@h1"})
			case rl.Kind == "link":
				err = p.LinkAlias(lAlias)
			default:
				err = p.MonitorAlias(lAlias)
			}
			return err
		}
		var bnotes []string
		mkWatcher := func(name string, record bool) (*Hooks, chan struct{}) {
			done := make(chan struct{})
			h := &Hooks{Name: name, Env: e, Trap: true}
			h.Message = func(p *Probe, from gen.PID, m any) error {
				if m == "relate" {
					for _, rl := range c.Reverse {
						if err := relate(p, rl); err != nil {
							e.Fail("C14/unexpected-failure", "%s: %s on %s of the live process ltarget on a@h1 failed: %v", name, rl.Kind, rl.What, err)
						}
					}
					close(done)
					return nil
				}
				if !record {
					return nil
				}
				what, reason, link := "", "", false
				switch v := m.(type) {
				case gen.MessageExitPID:
					what, reason, link = "pid", c04Reason(v.Reason), true
				case gen.MessageDownPID:
					what, reason = "pid", c04Reason(v.Reason)
				case gen.MessageExitProcessID:
					what, reason, link = "name", c04Reason(v.Reason), true
				case gen.MessageDownProcessID:
					what, reason = "name", c04Reason(v.Reason)
				case gen.MessageExitAlias:
					what, reason, link = "alias", c04Reason(v.Reason), true
				case gen.MessageDownAlias:
					what, reason = "alias", c04Reason(v.Reason)
				case gen.MessageExitEvent:
					what, reason, link = "event", c04Reason(v.Reason), true
				case gen.MessageDownEvent:
					what, reason = "event", c04Reason(v.Reason)
				default:
					return nil
				}
				kind := "monitor"
				if link {
					kind = "link"
				}
				mu.Lock()
				bnotes = append(bnotes, kind+" "+what+" "+reason)
				mu.Unlock()
				e.Logf("bystander notified: %s %s %s", kind, what, reason)
				return nil
			}
			return h, done
		}
		wh, wdone := mkWatcher("rwatcher", false)
		wpid, err := spawnUnder(e, b, wh)
		if err != nil {
			e.Infra("spawn rwatcher: " + err.Error())
			return
		}
		bh, bdone := mkWatcher("bystander", true)
		bpid, err := spawnUnder(e, a, bh)
		if err != nil {
			e.Infra("spawn bystander: " + err.Error())
			return
		}
		b.Send(wpid, "relate")
		a.Send(bpid, "relate")
		if !e.WaitChan(wdone, time.Minute) || !e.WaitChan(bdone, time.Minute) {
			e.Fail("C14/unexpected-failure", "the watchers of ltarget did not finish establishing their relations within a simulated minute")
			return
		}
		if e.Failed() {
			return
		}
		e.Probe("local-target-watched-from-the-remote-node")
		// runs after the scenario, before the nodes are stopped
		defer func() {
			if e.Failed() {
				return
			}
			mu.Lock()
			early := append([]string(nil), bnotes...)
			mu.Unlock()
			if len(early) > 0 {
				e.Fail("C14/bystander-notified", "fault %s on b@h2: a process of a@h1 that watches the live local process ltarget (also watched from b@h2) was notified %v", c.Fault, early)
				return
			}
			a.Kill(lPID)
			e.Settle(3 * time.Second)
			mu.Lock()
			got := append([]string(nil), bnotes...)
			mu.Unlock()
			var want []string
			for _, rl := range c.Reverse {
				want = append(want, rl.Kind+" "+rl.What+" kill")
			}
			sortStrings(got)
			sortStrings(want)
			if fmt.Sprint(got) != fmt.Sprint(want) {
				e.Fail("C14/bystander-not-notified", "fault %s on b@h2: ltarget on a@h1 was watched from b@h2 and by a local bystander; after the fault it was killed and the bystander got %v, expected %v", c.Fault, got, want)
				return
			}
			e.Probe("bystander-relations-intact")
		}()
	}

	classify := func(m any) (c14Note, bool) {
		switch v := m.(type) {
		case gen.MessageExitPID:
			return c14Note{true, "pid", c04Reason(v.Reason), 0}, v.PID == tPID
		case gen.MessageDownPID:
			return c14Note{false, "pid", c04Reason(v.Reason), 0}, v.PID == tPID
		case gen.MessageExitProcessID:
			return c14Note{true, "name", c04Reason(v.Reason), 0}, v.ProcessID.Name == tName
		case gen.MessageDownProcessID:
			return c14Note{false, "name", c04Reason(v.Reason), 0}, v.ProcessID.Name == tName
		case gen.MessageExitAlias:
			return c14Note{true, "alias", c04Reason(v.Reason), 0}, v.Alias == tAlias
		case gen.MessageDownAlias:
			return c14Note{false, "alias", c04Reason(v.Reason), 0}, v.Alias == tAlias
		case gen.MessageExitEvent:
			return c14Note{true, "event", c04Reason(v.Reason), 0}, true
		case gen.MessageDownEvent:
			return c14Note{false, "event", c04Reason(v.Reason), 0}, true
		case gen.MessageExitNode:
			return c14Note{true, "node", "noconnection", 0}, v.Name == "b@h2"
		case gen.MessageDownNode:
			return c14Note{false, "node", "noconnection", 0}, v.Name == "b@h2"
		}
		return c14Note{}, false
	}
	// observer on A
	relErr := map[int]error{}
	oh := &Hooks{Name: "observer", Env: e, Trap: true}
	ready := make(chan struct{})
	oh.Message = func(p *Probe, from gen.PID, m any) error {
		if m == "relate" {
			for i, rl := range c.Rels {
				var err error
				var target any
				switch rl.What {
				case "pid":
					target = tPID
				case "name":
					target = gen.ProcessID{Name: tName, Node: "b@h2"}
				case "alias":
					target = tAlias
				}
				switch {
				case rl.What == "event" && rl.Kind == "link":
					_, err = p.LinkEvent(gen.Event{Name: "tev", Node: "b@h2"})
				case rl.What == "event":
					_, err = p.MonitorEvent(gen.Event{Name: "tev", Node: "b@h2"})
				case rl.What == "node" && rl.Kind == "link":
					err = p.LinkNode("b@h2")
				case rl.What == "node":
					err = p.MonitorNode("b@h2")
				case rl.Kind == "link":
					err = p.Link(target)
				default:
					err = p.Monitor(target)
				}
				relErr[i] = err
				e.Logf("observer %s %s -> %v", rl.Kind, rl.What, err)
			}
			close(ready)
			return nil
		}
		if nt, ok := classify(m); ok {
			nt.step = e.Step()
			mu.Lock()
			notes = append(notes, nt)
			mu.Unlock()
			e.Logf("observer notified link=%v %s reason=%s", nt.link, nt.what, nt.reason)
		} else if _, isStr := m.(string); !isStr {
			e.Logf("observer got unrelated %T", m)
		}
		return nil
	}
	// The observer is spawned by another process: a top-level process has the node core as its
	// parent, and the exit signal for a lost pid link is stamped as coming from the core, i.e.
	// from the parent, which an actor never traps (it would terminate instead of reporting).
	var oPID gen.PID
	spawned := make(chan struct{})
	parentH := &Hooks{Name: "observer-parent", Env: e, Trap: true}
	parentH.Message = func(p *Probe, from gen.PID, m any) error {
		if m == "spawn" {
			pid, err := p.Spawn(ProbeFactory(oh), gen.ProcessOptions{})
			if err != nil {
				e.Infra("spawn observer: " + err.Error())
			}
			oPID = pid
			close(spawned)
		}
		return nil
	}
	ppid0, err := a.Spawn(ProbeFactory(parentH), gen.ProcessOptions{})
	if err != nil {
		e.Infra("spawn observer parent: " + err.Error())
		return
	}
	a.Send(ppid0, "spawn")
	if !e.WaitChan(spawned, time.Minute) {
		e.Infra("observer was not spawned")
		return
	}
	a.Send(oPID, "relate")
	if !e.WaitChan(ready, time.Minute) {
		e.Fail("C14/unexpected-failure", "the observer did not finish establishing its relations within a simulated minute")
		return
	}
	for i, rl := range c.Rels {
		if relErr[i] != nil {
			e.Fail("C14/unexpected-failure", "%s on %s of a live process on a connected node failed: %v", rl.Kind, rl.What, relErr[i])
			return
		}
	}
	e.Settle(2 * time.Second) // pool links joined
	linksBefore := len(sn.LiveLinks())

	remoteReason := ""
	if c.PreTerm {
		b.Send(tPID, "exit")
		e.Settle(2 * time.Second)
		remoteReason = "normal"
	}

	// in-flight request
	type flight struct {
		err  error
		took time.Duration
		done bool
	}
	var fl flight
	if c.InFlight != "" && !c.PreTerm {
		ch := &Hooks{Name: "caller", Env: e}
		ch.Message = func(p *Probe, from gen.PID, m any) error {
			t0 := e.Now()
			var err error
			if c.InFlight == "call" {
				_, err = p.CallWithTimeout(tPID, "never-answered", 5)
			} else {
				err = p.SendImportant(gen.ProcessID{Name: tName, Node: "b@h2"}, "important")
			}
			mu.Lock()
			fl = flight{err: err, took: e.Now() - t0, done: true}
			mu.Unlock()
			e.Logf("in-flight %s -> %v after %v", c.InFlight, err, fl.took)
			return nil
		}
		cpid, err := a.Spawn(ProbeFactory(ch), gen.ProcessOptions{})
		if err != nil {
			e.Infra("spawn caller: " + err.Error())
			return
		}
		a.Send(cpid, "go")
	}
	e.Sleep(time.Duration(c.FaultAtMs) * time.Millisecond)

	// the fault
	e.Logf("fault %s at %v", c.Fault, e.Now())
	switch c.Fault {
	case "cutall":
		sn.CutAll()
	case "cutone":
		ls := sn.LiveLinks()
		if len(ls) > 0 {
			ls[len(ls)-1].Cut()
		}
	case "stop":
		e.Fault("node-stop")
		simkit.StopNode(e, b, true, time.Minute)
	case "crash", "restart":
		e.Fault("node-crash")
		sn.Refuse("h2", true)
		sn.CutAll()
		simkit.StopNode(e, b, false, 0)
		// the operating system closes every socket of a dead process, including connections
		// the dying node opened while its processes were being killed
		e.Settle(time.Millisecond)
		sn.CutAll()
	case "termcrash":
		e.Fault("node-crash")
		if c.TermGapMs < 0 {
			trig := make(chan struct{})
			var once sync.Once
			sn.SetOnDeliver(func(l *simkit.Link, dir int, n int) { once.Do(func() { close(trig) }) })
			b.Send(tPID, "exit")
			e.WaitChan(trig, 5*time.Second)
			sn.SetOnDeliver(nil)
			e.Probe("crash-while-terminate-message-is-handled")
		} else {
			b.Send(tPID, "exit")
			if c.TermGapMs > 0 {
				e.Sleep(time.Duration(c.TermGapMs) * time.Millisecond)
			}
		}
		sn.Refuse("h2", true)
		sn.CutAll()
		simkit.StopNode(e, b, false, 0)
		e.Settle(time.Millisecond)
		sn.CutAll()
	case "halfopen":
		// b loses power: nothing it had in flight arrives, no close reaches a, and a new
		// incarnation of b comes up and dials a while a still believes the old connection alive
		sn.BlackholeAll()
		simkit.StopNode(e, b, false, 0)
		e.Sleep(time.Duration(c.RestartMs) * time.Millisecond)
		b2 = simkit.StartNetNode(e, sn, simkit.NetNodeOptions{Name: "b@h2", Cookie: "k", PoolSize: c.Pool})
		if b2 == nil {
			return
		}
		var hmu sync.Mutex
		var newGot []string
		nh := &Hooks{Name: "newtarget", Env: e}
		nh.Message = func(p *Probe, from gen.PID, m any) error {
			hmu.Lock()
			newGot = append(newGot, fmt.Sprint(m))
			hmu.Unlock()
			return nil
		}
		nh.Call = func(p *Probe, from gen.PID, ref gen.Ref, req any) (any, error) {
			hmu.Lock()
			newGot = append(newGot, "call:"+fmt.Sprint(req))
			hmu.Unlock()
			return "new", nil
		}
		// the new incarnation spawns processes whose numeric ids repeat those of the old one
		for i := 0; i < 6; i++ {
			name := gen.Atom("")
			if i == 3 {
				name = "target"
			}
			var err error
			if name != "" {
				_, err = b2.SpawnRegister(name, ProbeFactory(nh), gen.ProcessOptions{})
			} else {
				_, err = b2.Spawn(ProbeFactory(nh), gen.ProcessOptions{})
			}
			if err != nil {
				e.Infra("spawn on the restarted node: " + err.Error())
				return
			}
		}
		_, derr := b2.Network().GetNode("a@h1")
		e.Logf("new incarnation of b dials a (which still holds the half-open connection) -> %v", derr)
		e.Settle(2 * time.Second)
		hdone := make(chan struct{})
		hh := &Hooks{Name: "halfopen-prober", Env: e, Trap: true}
		hh.Message = func(p *Probe, from gen.PID, m any) error {
			p.Send(tPID, "old-id-send")
			p.CallWithTimeout(tPID, "old-id-call", 2)
			p.Send(tAlias, "old-alias-send")
			p.SendImportant(tPID, "old-id-important")
			close(hdone)
			return nil
		}
		hp, _ := a.Spawn(ProbeFactory(hh), gen.ProcessOptions{})
		a.Send(hp, "go")
		if !e.WaitChan(hdone, 5*time.Minute) {
			e.Fail("C14/request-hangs", "fault halfopen: operations on identifiers of the previous incarnation did not return within 5 simulated minutes")
			return
		}
		e.Settle(3 * time.Second)
		hmu.Lock()
		defer hmu.Unlock()
		for _, g := range newGot {
			if g == "old-id-send" || g == "call:old-id-call" || g == "old-alias-send" || g == "old-id-important" {
				e.Fail("C14/old-incarnation-delivered", "fault halfopen (b restarted unnoticed, the new incarnation dialled a): a process of the new incarnation received %q addressed to a process of the previous incarnation", g)
				return
			}
		}
		e.Probe("incarnation-refused")
		// what a notices of a silent loss, and when, is not judged
		return
	case "partition":
		sn.Refuse("h2", true)
		sn.Refuse("h1", true)
		sn.CutAll()
	case "netstop":
		// the observers' own node switches its network off and keeps running
		e.Fault("network-stop")
		if err := a.NetworkStop(); err != nil {
			e.Fail("C14/unexpected-failure", "NetworkStop: %v", err)
			return
		}
	}
	e.Settle(8 * time.Second)
	if c.Fault == "partition" {
		sn.Refuse("h2", false)
		sn.Refuse("h1", false)
	}
	if e.Failed() {
		return
	}

	// ---- oracle ----
	if ps := e.Panics(); len(ps) > 0 && os.Getenv("VERIF_C14_PANICS") != "" {
		e.Fail("C14/panic", "a panic was recovered inside a node: %s", ps[0])
		return
	}
	mu.Lock()
	ns := append([]c14Note(nil), notes...)
	f := fl
	mu.Unlock()
	connLost := c.Fault != "cutone"
	count := func(link bool, what string) (int, []string) {
		k := 0
		var rs []string
		for _, x := range ns {
			if x.link == link && x.what == what {
				k++
				rs = append(rs, x.reason)
			}
		}
		return k, rs
	}
	held := map[string]bool{}
	for _, rl := range c.Rels {
		held[rl.Kind+"/"+rl.What] = true
		link := rl.Kind == "link"
		k, reasons := count(link, rl.What)
		want := 0
		wantReason := "noconnection"
		if connLost {
			want = 1
		}
		if c.PreTerm && rl.What != "node" {
			// the target went away while connected: exactly one notification with the remote reason
			want = 1
			wantReason = remoteReason
		}
		if k != want {
			cls := "C14/not-notified"
			if k > want {
				cls = "C14/notified-too-often"
			}
			e.Fail(cls, "fault %s (pool %d, target terminated before=%v): the observer holds a %s on the remote %s and got %d notification(s) %v, expected %d (%s)",
				c.Fault, c.Pool, c.PreTerm, rl.Kind, rl.What, k, reasons, want, wantReason)
			return
		}
		for _, r := range reasons {
			ok := r == wantReason || (wantReason == "noconnection" && r == reasonKey(gen.ErrNoConnection))
			if c.Fault == "termcrash" && rl.What != "node" && r == "normal" {
				ok = true // the terminate message won the race against the loss of the connection
			}
			if !ok {
				e.Fail("C14/wrong-reason", "fault %s: the %s on the remote %s was notified with reason %q, expected %q", c.Fault, rl.Kind, rl.What, r, wantReason)
				return
			}
		}
		if want == 1 && wantReason == "noconnection" {
			e.Probe("node-down-notified")
		}
		if want == 1 && wantReason != "noconnection" {
			e.Probe("remote-reason-notified")
		}
	}
	for _, x := range ns {
		k := "monitor/" + x.what
		if x.link {
			k = "link/" + x.what
		}
		if !held[k] {
			e.Fail("C14/spurious-notification", "the observer got a %s notification although it holds no such relation", k)
			return
		}
	}
	if c.InFlight != "" && !c.PreTerm {
		if !f.done {
			e.Fail("C14/request-hangs", "the %s in flight when fault %s happened (at %dms) has not returned after more than 8 simulated seconds (timeout 5s)", c.InFlight, c.Fault, c.FaultAtMs)
			return
		}
		if f.took > 5*time.Second+100*time.Millisecond {
			e.Fail("C14/request-hangs", "the in-flight %s returned after %v (timeout 5s)", c.InFlight, f.took)
			return
		}
		if f.err != nil {
			e.Probe("in-flight-request-failed")
		}
	}
	if c.Fault == "cutone" {
		// the connection must survive and be usable
		if _, err := a.Network().Node("b@h2"); err != nil {
			e.Fail("C14/connection-lost-on-single-link-cut", "one of %d pooled links was cut and the whole connection is gone: %v", linksBefore, err)
			return
		}
		e.Probe("connection-survived-link-cut")
	}
	if connLost && c.Fault != "stop" {
		if _, err := a.Network().Node("b@h2"); err == nil && c.Fault != "cutall" {
			e.Fail("C14/stale-connection", "after fault %s node A still lists a connection with b@h2", c.Fault)
			return
		}
	}

	// ---- phase 2: the connection comes back, somebody else relates to the same name / event ----
	phase2 := func(bn gen.Node, target gen.PID) bool {
		var o2notes []c14Note
		o2errs := map[string]error{}
		o2ready := make(chan struct{})
		o2 := &Hooks{Name: "observer2", Env: e, Trap: true}
		o2.Message = func(p *Probe, from gen.PID, m any) error {
			if m == "relate" {
				_, o2errs["link/event"] = p.LinkEvent(gen.Event{Name: "tev", Node: "b@h2"})
				o2errs["monitor/name"] = p.MonitorProcessID(gen.ProcessID{Name: tName, Node: "b@h2"})
				o2errs["link/name"] = p.LinkProcessID(gen.ProcessID{Name: tName, Node: "b@h2"})
				close(o2ready)
				return nil
			}
			if nt, ok := classify(m); ok {
				mu.Lock()
				o2notes = append(o2notes, nt)
				mu.Unlock()
				e.Logf("observer2 notified link=%v %s reason=%s", nt.link, nt.what, nt.reason)
			}
			return nil
		}
		o2pid, err := spawnUnder(e, a, o2)
		if err != nil {
			e.Infra("spawn observer2: " + err.Error())
			return false
		}
		mu.Lock()
		before := len(notes)
		mu.Unlock()
		a.Send(o2pid, "relate")
		if !e.WaitChan(o2ready, time.Minute) {
			e.Fail("C14/request-hangs", "after the connection came back, relating to the remote name / event did not return within a simulated minute")
			return false
		}
		for k, err := range o2errs {
			if err != nil {
				e.Fail("C14/unexpected-failure", "after the connection came back, %s on the live remote target failed: %v", k, err)
				return false
			}
		}
		e.Settle(time.Second)
		bn.Send(target, "exit")
		e.Settle(3 * time.Second)
		mu.Lock()
		defer mu.Unlock()
		if len(notes) != before {
			x := notes[len(notes)-1]
			e.Fail("C14/notified-too-often", "fault %s: the first observer was already told 'no connection' for its relations; after the connection came back, a second process related to the same name/event and the target terminated, and the first observer got another notification (link=%v %s reason=%s)", c.Fault, x.link, x.what, x.reason)
			return false
		}
		cnt := map[string]int{}
		for _, x := range o2notes {
			k := "monitor/" + x.what
			if x.link {
				k = "link/" + x.what
			}
			cnt[k]++
		}
		for _, k := range []string{"link/event", "monitor/name", "link/name"} {
			if cnt[k] != 1 {
				e.Fail("C14/not-notified", "fault %s, after the connection came back: the second observer holds %s on the remote target, which terminated, and got %d notifications", c.Fault, k, cnt[k])
				return false
			}
		}
		e.Probe("relations-after-reconnect")
		return true
	}
	if c.Fault == "partition" && c.Phase2 && !c.PreTerm {
		if _, err := a.Network().GetNode("b@h2"); err != nil {
			e.Fail("C14/unexpected-failure", "after the partition healed node A cannot connect to b@h2: %v", err)
			return
		}
		phase2(b, tPID)
		return
	}

	// ---- restart: incarnations ----
	if c.Fault != "restart" {
		return
	}
	e.Sleep(time.Duration(c.RestartMs) * time.Millisecond)
	sn.Refuse("h2", false)
	b2 = simkit.StartNetNode(e, sn, simkit.NetNodeOptions{Name: "b@h2", Cookie: "k", PoolSize: c.Pool})
	if b2 == nil {
		return
	}
	var newGot []string
	nh := &Hooks{Name: "newtarget", Env: e}
	nh.Message = func(p *Probe, from gen.PID, m any) error {
		mu.Lock()
		newGot = append(newGot, fmt.Sprint(m))
		mu.Unlock()
		switch m {
		case "setup2":
			if _, err := p.RegisterEvent("tev", gen.EventOptions{}); err != nil {
				e.Fail("C14/unexpected-failure", "RegisterEvent on the restarted node: %v", err)
			}
		case "exit":
			return gen.TerminateReasonNormal
		}
		return nil
	}
	nh.Call = func(p *Probe, from gen.PID, ref gen.Ref, req any) (any, error) {
		mu.Lock()
		newGot = append(newGot, "call:"+fmt.Sprint(req))
		mu.Unlock()
		return "new", nil
	}
	// the new incarnation spawns processes whose numeric ids repeat those of the old one
	var newPIDs []gen.PID
	for i := 0; i < 3; i++ {
		np, err := b2.Spawn(ProbeFactory(nh), gen.ProcessOptions{})
		if err != nil {
			e.Infra("spawn on restarted node: " + err.Error())
			return
		}
		newPIDs = append(newPIDs, np)
	}
	newTarget, err := b2.SpawnRegister("target", ProbeFactory(nh), gen.ProcessOptions{})
	if err != nil {
		e.Infra("spawn on restarted node: " + err.Error())
		return
	}
	b2.Send(newTarget, "setup2")
	sameCreation := newPIDs[0].Creation == tPID.Creation
	res := map[string]error{}
	ph := &Hooks{Name: "prober", Env: e, Trap: true}
	pdone := make(chan struct{})
	ph.Message = func(p *Probe, from gen.PID, m any) error {
		res["send"] = p.Send(tPID, "old-id-send")
		_, res["call"] = p.CallWithTimeout(tPID, "old-id-call", 2)
		res["link"] = p.LinkPID(tPID)
		res["monitor"] = p.MonitorPID(tPID)
		res["send-alias"] = p.Send(tAlias, "old-alias-send")
		res["send-important"] = p.SendImportant(tPID, "old-id-important")
		// late answers to the request a process of the previous incarnation left behind
		res["response"] = p.SendResponse(heldFrom, heldRef, "late-answer")
		res["response-error"] = p.SendResponseError(heldFrom, heldRef, fmt.Errorf("late-error"))
		close(pdone)
		return nil
	}
	ppid, _ := a.Spawn(ProbeFactory(ph), gen.ProcessOptions{})
	a.Send(ppid, "go")
	if !e.WaitChan(pdone, time.Minute) {
		e.Fail("C14/request-hangs", "operations on identifiers of the previous incarnation did not return within a simulated minute")
		return
	}
	e.Settle(3 * time.Second)
	mu.Lock()
	defer mu.Unlock()
	tag := ""
	if sameCreation {
		tag = " [node restarted within the same second: same creation value]"
	}
	for _, op := range []string{"send", "call", "link", "monitor", "send-alias", "send-important", "response", "response-error"} {
		if !errors.Is(res[op], gen.ErrProcessIncarnation) {
			e.Fail("C14/old-incarnation-accepted", "%s with an identifier of the previous incarnation of b@h2 (restarted after %dms) returned %v instead of the incarnation error%s", op, c.RestartMs, res[op], tag)
			return
		}
	}
	for _, g := range newGot {
		if g == "old-id-send" || g == "call:old-id-call" || g == "old-alias-send" || g == "old-id-important" {
			e.Fail("C14/old-incarnation-delivered", "a process of the new incarnation received %q addressed to a process of the previous incarnation%s", g, tag)
			return
		}
	}
	e.Probe("incarnation-refused")
	if c.Phase2 {
		mu.Unlock()
		phase2(b2, newTarget)
		mu.Lock()
	}
}
