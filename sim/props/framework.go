// Package props holds one workload + oracle per property and the worker loop
// that explores seeds, minimises failures and replays them.
package props

import (
	"encoding/json"
	"fmt"
	"sort"

	"verifsim/simkit"
)

// Property is one verified property: a generator of cases, a workload that
// drives the real system inside a simulated run, and oracles that call
// Env.Fail.
type Property interface {
	ID() string
	// Level is the evidence level (exploration | fault_enumeration).
	Level() string
	// Generate draws a case. It must be a pure function of r and tier.
	Generate(r *simkit.Rand, tier string) any
	// NewCase returns a pointer to an empty case for JSON decoding.
	NewCase() any
	// Run is the main task of a simulated run.
	Run(e *simkit.Env, c any)
	// Shrink proposes simpler variants of a failing case.
	Shrink(c any) []any
	// Nontrivial lists the probes of which at least one must have fired for
	// a run to count as non-trivial.
	Nontrivial() []string
	// Rule describes generation and the non-triviality rule for the evidence.
	Rule() string
	// Components: which parts ran real code and which were stubbed.
	Components() (real, stub []string)
}

// Optional interfaces.

// SchedTuner lets a property bias the scheduler strategy mix.
type SchedTuner interface {
	Sched(r *simkit.Rand, c any) simkit.SchedSpec
}

// ResultJudge lets a property turn run-level outcomes (step budget exceeded,
// deadlock) into violations; without it they are infrastructure failures.
type ResultJudge interface {
	Judge(c any, res *simkit.Result)
}

var registry = map[string]Property{}

func Register(p Property) { registry[p.ID()] = p }

func Lookup(id string) Property { return registry[id] }

func IDs() []string {
	var ids []string
	for k := range registry {
		ids = append(ids, k)
	}
	sort.Strings(ids)
	return ids
}

// DefaultSched draws the swarm mix of scheduling strategies.
func DefaultSched(r *simkit.Rand, lenHint int) simkit.SchedSpec {
	spec := simkit.SchedSpec{Seed: r.Uint64(), LenHint: lenHint}
	switch r.Intn(10) {
	case 0, 1, 2:
		spec.Mode = "random"
	case 3, 4, 5:
		spec.Mode = "sticky"
		spec.PreemptP = simkit.Pick(r, 0.02, 0.05, 0.1, 0.25)
	default:
		spec.Mode = "pct"
		spec.Depth = r.Range(1, 4)
	}
	return spec
}

// Failure is what a worker records for a failing run and what a replay file
// contains.
type Failure struct {
	Property  string            `json:"property"`
	VerifSeed uint64            `json:"verif_seed"`
	RunIndex  uint64            `json:"run_index"`
	RunSeed   uint64            `json:"run_seed"`
	Tier      string            `json:"tier"`
	Violation *simkit.Violation `json:"violation"`
	Case      json.RawMessage   `json:"case"`
	Sched     simkit.SchedSpec  `json:"sched"`
	Steps     int               `json:"steps"`
	Minimised bool              `json:"minimised"`
	Reruns    int               `json:"minimise_reruns,omitempty"`
	Trace     []string          `json:"trace,omitempty"`
	Events    []string          `json:"events,omitempty"`
	Note      string            `json:"note,omitempty"`
}

func traceStrings(res *simkit.Result, maxn int) []string {
	tr := res.Trace
	start := 0
	if len(tr) > maxn {
		start = len(tr) - maxn
	}
	out := make([]string, 0, len(tr)-start)
	for i := start; i < len(tr); i++ {
		out = append(out, fmt.Sprintf("%d: task %d @ %s", i, tr[i].Task, tr[i].Label))
	}
	return out
}

func tail(xs []string, n int) []string {
	if len(xs) > n {
		return xs[len(xs)-n:]
	}
	return xs
}

// dropAt returns a copy of xs without element i.
func dropAt[T any](xs []T, i int) []T {
	out := make([]T, 0, len(xs)-1)
	out = append(out, xs[:i]...)
	return append(out, xs[i+1:]...)
}

func cloneJSON[T any](c *T) *T {
	b, _ := json.Marshal(c)
	var out T
	json.Unmarshal(b, &out)
	return &out
}

func sortStrings(xs []string) { sort.Strings(xs) }
