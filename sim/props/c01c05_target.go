package props

import (
	"errors"
	"fmt"
	"strings"
	"sync"
	"time"

	"ergo.services/ergo/act"
	"ergo.services/ergo/gen"

	"verifsim/simkit"
)

// Shared workload of C01 (serial execution) and C05 (termination once, right
// reason, final): one target process of a drawn kind, hammered by concurrent
// drivers with ordinary traffic and with termination causes.

type TOp struct {
	Op      string `json:"op"` // send|sendname|sendalias|call|inspect|sendafter|log|callout|exit|parentexit|kill|err|normal|panic|metastop|metapanic
	Prio    int    `json:"prio,omitempty"`
	DelayMs int    `json:"delay_ms,omitempty"`
}

type TDriver struct {
	Actor bool  `json:"actor"`
	Ops   []TOp `json:"ops"`
}

type TCase struct {
	Kind     string    `json:"kind"` // actor | sup | pool | meta
	Trap     bool      `json:"trap"`
	Logger   bool      `json:"logger"`
	SelfSend int       `json:"self_send"`
	InitSelf int       `json:"init_self"`
	Drivers  []TDriver `json:"drivers"`
	NodeStop bool      `json:"node_stop"` // graceful node stop at the end instead of a forced one
	// MetaEarly: messages the owner sends to its meta-process right after SpawnMeta returned (before the
	// meta-process's Start goroutine is necessarily running)
	MetaEarly int `json:"meta_early,omitempty"`
	// EarlyEnd (C05, meta): instead of the general workload: the owner spawns a meta-process and, in the
	// same callback, ends it before its Start goroutine has necessarily run: 1 SendExitMeta, 2 the owner
	// returns an error, 3 the owner panics, 4 the owner is killed at once
	EarlyEnd int `json:"early_end,omitempty"`
	// InitKill (actor): the target hands its pid out from inside Init and a client calls Node.Kill
	// on it at once - while Init is still running the process is not known to the node yet
	InitKill bool `json:"init_kill,omitempty"`
}

type tMsg struct {
	ID    int
	Do    string // "" | err | normal | panic | callout
	Delay int
}

var terminatingOps = map[string]bool{"exit": true, "parentexit": true, "kill": true, "err": true, "normal": true, "panic": true, "metastop": true, "metapanic": true}

func genTCase(r *simkit.Rand, tier string, causes bool) *TCase {
	c := &TCase{}
	c.Kind = simkit.Pick(r, "actor", "actor", "actor", "sup", "pool", "meta", "meta", "raw")
	c.Trap = r.Chance(0.4)
	c.Logger = c.Kind == "actor" && r.Chance(0.25)
	c.SelfSend = simkit.Pick(r, 0, 0, 1, 2)
	c.InitSelf = simkit.Pick(r, 0, 0, 1)
	c.InitKill = c.Kind == "actor" && r.Chance(0.1)
	c.NodeStop = r.Chance(0.3)
	nd := r.Range(2, 4)
	maxOps := 5
	if tier == "thorough" {
		nd = r.Range(2, 5)
		maxOps = 6
	}
	traffic := []string{"send", "send", "sendname", "sendalias", "call", "inspect", "sendafter", "send"}
	if c.Logger {
		traffic = append(traffic, "log", "log")
	}
	if c.Kind != "meta" && r.Chance(0.5) {
		// the target's handler makes a synchronous request itself (it is then in the
		// wait-response state while other traffic and termination causes arrive)
		traffic = append(traffic, "callout", "callout")
	}
	if c.Kind == "meta" {
		c.MetaEarly = simkit.Pick(r, 0, 0, 1, 2, 3)
	}
	if r.Chance(0.4) {
		// small cases: two drivers with one or two operations each leave few interleavings,
		// every one of which is then likely to be visited
		nd, maxOps = 2, 2
		c.SelfSend, c.InitSelf, c.Logger = 0, 0, false
	}
	for i := 0; i < nd; i++ {
		d := TDriver{Actor: r.Chance(0.6)}
		for j, n := 0, r.Range(1, maxOps); j < n; j++ {
			op := TOp{Prio: simkit.Pick(r, 0, 0, 1, 2)}
			for {
				op.Op = traffic[r.Intn(len(traffic))]
				if !d.Actor && (op.Op == "call" || op.Op == "inspect" || op.Op == "sendafter") {
					continue
				}
				break
			}
			if op.Op == "sendafter" {
				op.DelayMs = simkit.Pick(r, 0, 1, 5, 20)
			}
			if op.Op == "callout" {
				op.DelayMs = simkit.Pick(r, 0, 0, 1, 5, -1) // -1: the helper never answers, the request times out
			}
			d.Ops = append(d.Ops, op)
		}
		c.Drivers = append(c.Drivers, d)
	}
	// termination causes
	nc := 0
	if causes {
		nc = simkit.Pick(r, 1, 1, 2, 2, 3)
	} else {
		nc = simkit.Pick(r, 0, 1, 1, 2)
	}
	for k := 0; k < nc; k++ {
		cause := simkit.Pick(r, "exit", "parentexit", "kill", "kill", "err", "normal", "panic")
		if c.Kind == "meta" {
			cause = simkit.Pick(r, "exit", "kill", "err", "normal", "panic", "metastop", "metastop", "metapanic")
		}
		di := r.Intn(len(c.Drivers))
		d := &c.Drivers[di]
		if cause == "exit" || cause == "parentexit" {
			// needs an actor (exit signals are sent by processes)
			d.Actor = true
		}
		pos := r.Intn(len(d.Ops) + 1)
		ops := append([]TOp{}, d.Ops[:pos]...)
		ops = append(ops, TOp{Op: cause, Prio: simkit.Pick(r, 0, 0, 1, 2)})
		d.Ops = append(ops, d.Ops[pos:]...)
	}
	return c
}

func shrinkTCase(c *TCase) []any {
	var out []any
	for i := range c.Drivers {
		if len(c.Drivers) > 1 {
			n := cloneJSON(c)
			n.Drivers = dropAt(n.Drivers, i)
			out = append(out, n)
		}
	}
	for i := range c.Drivers {
		for j := range c.Drivers[i].Ops {
			n := cloneJSON(c)
			n.Drivers[i].Ops = dropAt(n.Drivers[i].Ops, j)
			out = append(out, n)
		}
	}
	for _, f := range []func(n *TCase) bool{
		func(n *TCase) bool { x := n.SelfSend > 0; n.SelfSend = 0; return x },
		func(n *TCase) bool { x := n.InitSelf > 0; n.InitSelf = 0; return x },
		func(n *TCase) bool { x := n.InitKill; n.InitKill = false; return x },
		func(n *TCase) bool { x := n.Logger; n.Logger = false; return x },
		func(n *TCase) bool { x := n.Trap; n.Trap = false; return x },
		func(n *TCase) bool { x := n.NodeStop; n.NodeStop = false; return x },
	} {
		n := cloneJSON(c)
		if f(n) {
			out = append(out, n)
		}
	}
	return out
}

// tRun is the state of one run of the shared workload.
type tRun struct {
	helper gen.PID
	prop   string
	e      *simkit.Env
	c      *TCase
	n      gen.Node

	target   gen.PID   // process under test (for meta: the owner process)
	metaID   gen.Alias // meta kind
	alias    gen.Alias
	th       *Hooks   // hooks of the target
	all      []*Hooks // every instrumented process
	pm       *ProbeMeta
	parent   gen.PID
	parentCh chan func(p *Probe)

	mu         sync.Mutex
	causes     []string // reasons that may legitimately terminate the target, issued successfully
	termReason error
	termStep   int
	obsLink    []error // reasons seen by the linked observer
	// observers of the registered name (actors and pools, not meta-processes)
	nameObservers bool
	obsLinkName   []error
	obsMonName    []error
	obsMon        []error
	trappedOK     int // exit signals from non-parents received as messages
	afterTerm     []string
	issued        map[string]int
	parentExit    bool
	// the meta-process' Start was told to return (its termination then races with the handler goroutine)
	startReturned bool
}

func (t *tRun) tag() string {
	t.mu.Lock()
	defer t.mu.Unlock()
	if t.startReturned {
		return " [meta Start returned]"
	}
	return ""
}

// unexpected reports an API failure that cannot happen while the property
// holds (the workload has not issued any termination cause yet).
func (t *tRun) unexpected(what string) {
	t.e.Fail(t.prop+"/unexpected-failure", "%s: %s", t.c.Kind, what)
}

func (t *tRun) addCause(s string) {
	t.mu.Lock()
	t.causes = append(t.causes, s)
	t.mu.Unlock()
}

// c05Reason builds the reason carried by cause number id. For an actor target every second one
// wraps another error: what the observers are told is the reason that was given, not the innermost
// cause of it. (The runtime strips one level of wrapping from whatever the behaviour returns; the actor
// adds exactly one level to the reason of an exit signal, supervisors and pools hand it on as it is -
// there a wrapped reason reaches the observers without its outermost level, which is not judged.)
func c05Reason(prefix string, id int, wrapOK bool) (error, string) {
	if id%2 == 0 && wrapOK {
		err := fmt.Errorf("%s%d-outer: %w", prefix, id, fmt.Errorf("inner%d", id))
		return err, err.Error()
	}
	err := fmt.Errorf("%s%d", prefix, id)
	return err, err.Error()
}

func reasonKey(err error) string {
	switch {
	case err == nil:
		return "<nil>"
	case errors.Is(err, gen.TerminateReasonKill):
		return "kill"
	case errors.Is(err, gen.TerminateReasonPanic):
		return "panic"
	case errors.Is(err, gen.TerminateReasonNormal):
		return "normal"
	case errors.Is(err, gen.TerminateReasonShutdown):
		return "shutdown"
	}
	s := err.Error()
	if i := strings.LastIndex(s, "boom"); i >= 0 {
		return s[i:]
	}
	if i := strings.LastIndex(s, "xsig"); i >= 0 {
		return s[i:]
	}
	return "other:" + s
}

func (t *tRun) handle(self gen.Process, m any) error {
	tm, ok := m.(tMsg)
	if !ok {
		if ex, ok := m.(gen.MessageExitPID); ok {
			t.mu.Lock()
			t.trappedOK++
			t.mu.Unlock()
			t.e.Logf("target got trapped exit %s", reasonKey(ex.Reason))
		}
		return nil
	}
	if t.c.SelfSend > 0 && tm.ID >= 0 && tm.ID%7 < t.c.SelfSend && self != nil {
		self.Send(self.PID(), tMsg{ID: -1})
	}
	switch tm.Do {
	case "callout":
		if self != nil {
			_, err := self.CallWithTimeout(t.helper, tm.Delay, 1)
			t.e.Logf("target callout %d -> %v", tm.ID, err)
			t.e.Probe("target-made-a-request")
		}
	case "err":
		// (a handler error is handed to the observers without its outermost wrapping: flat reasons only)
		return fmt.Errorf("boom%d", tm.ID)
	case "normal":
		return gen.TerminateReasonNormal
	case "panic":
		panic(fmt.Sprintf("injected panic %d", tm.ID))
	}
	return nil
}

func (t *tRun) onTerminate(reason error) {
	t.mu.Lock()
	t.termReason = reason
	t.termStep = t.e.Step()
	t.mu.Unlock()
	t.e.Logf("target terminate reason=%s", reasonKey(reason))
}

func (t *tRun) newHooks(name string) *Hooks {
	h := &Hooks{Name: name, Env: t.e, Slow: true}
	t.all = append(t.all, h)
	return h
}

func (t *tRun) spawnTarget() bool {
	e, c, n := t.e, t.c, t.n
	th := t.newHooks("target")
	th.Trap = c.Trap
	t.th = th
	initSelf := func(p gen.Process) {
		for i := 0; i < c.InitSelf; i++ {
			p.Send(p.PID(), tMsg{ID: -2})
		}
	}
	var factory gen.ProcessFactory
	switch c.Kind {
	case "actor", "meta":
		th.Init = func(p *Probe, args ...any) error {
			if c.InitKill && c.Kind == "actor" {
				pid := p.PID()
				killed := make(chan struct{})
				e.Go("initkiller", func() {
					defer close(killed)
					err := n.Kill(pid)
					if err == nil {
						t.addCause("kill")
					}
					e.Logf("kill of the target while it is in Init -> %v", err)
				})
				e.Probe("kill-aimed-at-init")
				// Init goes on when the Kill call has returned
				e.WaitChan(killed, time.Minute)
			}
			initSelf(p)
			return nil
		}
		th.Message = func(p *Probe, from gen.PID, m any) error {
			if s, ok := m.(string); ok && s == "setup" {
				a, err := p.CreateAlias()
				if err != nil {
					t.unexpected("CreateAlias inside a running callback of the target: " + err.Error())
				}
				t.alias = a
				if c.Kind == "meta" {
					mh := t.newHooks("meta")
					mh.MetaMessage = func(m *ProbeMeta, from gen.PID, msg any) error { return t.handle(nil, msg) }
					mh.MetaCall = func(m *ProbeMeta, from gen.PID, ref gen.Ref, req any) (any, error) {
						if err := t.handle(nil, req); err != nil {
							return nil, err
						}
						return "ok", nil
					}
					mh.MetaTerminate = func(m *ProbeMeta, reason error) { t.onTerminate(reason) }
					t.pm = NewProbeMeta(mh)
					id, err := p.SpawnMeta(t.pm, gen.MetaOptions{})
					if err != nil {
						t.unexpected("SpawnMeta inside a running callback: " + err.Error())
					}
					t.metaID = id
					for i := 0; i < c.MetaEarly; i++ {
						p.Send(id, tMsg{ID: -3})
					}
				}
				return nil
			}
			if c.Kind == "meta" {
				return nil // the owner process only forwards nothing; traffic goes to the meta
			}
			return t.handle(p, m)
		}
		th.Call = func(p *Probe, from gen.PID, ref gen.Ref, req any) (any, error) {
			if err := t.handle(p, req); err != nil {
				return nil, err
			}
			return "ok", nil
		}
		if c.Kind == "actor" {
			th.Terminate = func(p *Probe, reason error) { t.onTerminate(reason) }
		}
		factory = ProbeFactory(th)
	case "raw":
		// a behaviour written directly against gen.ProcessBehavior (no act.Actor in between)
		factory = func() gen.ProcessBehavior {
			return &ProbeRaw{H: th, i: th.newInst(),
				OnInit: func(p gen.Process) error { initSelf(p); return nil },
				OnMessage: func(p gen.Process, from gen.PID, m any) error {
					if s, ok := m.(string); ok && s == "setup" {
						a, err := p.CreateAlias()
						if err != nil {
							t.unexpected("CreateAlias inside a running callback of the target: " + err.Error())
						}
						t.alias = a
						return nil
					}
					return t.handle(p, m)
				},
				OnCall: func(p gen.Process, from gen.PID, ref gen.Ref, req any) (any, error) {
					if err := t.handle(p, req); err != nil {
						return nil, err
					}
					return "ok", nil
				},
				OnTerminate: func(p gen.Process, reason error) { t.onTerminate(reason) },
			}
		}
	case "sup":
		ch := t.newHooks("child")
		th.SupInit = func(p *ProbeSup, args ...any) (act.SupervisorSpec, error) {
			initSelf(p)
			return act.SupervisorSpec{
				Type:     act.SupervisorTypeOneForOne,
				Children: []act.SupervisorChildSpec{{Name: "child", Factory: ProbeFactory(ch)}},
				Restart:  act.SupervisorRestart{Strategy: act.SupervisorStrategyTransient, Intensity: 10, Period: 5},
			}, nil
		}
		th.SupMessage = func(p *ProbeSup, from gen.PID, m any) error {
			if s, ok := m.(string); ok && s == "setup" {
				a, err := p.CreateAlias()
				if err != nil {
					t.unexpected("CreateAlias inside a running callback of the target: " + err.Error())
				}
				t.alias = a
				return nil
			}
			return t.handle(p, m)
		}
		th.SupCall = func(p *ProbeSup, from gen.PID, ref gen.Ref, req any) (any, error) {
			if err := t.handle(p, req); err != nil {
				return nil, err
			}
			return "ok", nil
		}
		th.SupTerminate = func(p *ProbeSup, reason error) { t.onTerminate(reason) }
		factory = ProbeSupFactory(th)
	case "pool":
		wh := t.newHooks("worker")
		wh.Message = func(p *Probe, from gen.PID, m any) error {
			if tm, ok := m.(tMsg); ok && tm.Do != "" {
				return nil // termination instructions are meant for the pool process itself
			}
			return nil
		}
		wh.Call = func(p *Probe, from gen.PID, ref gen.Ref, req any) (any, error) { return "ok", nil }
		th.PoolInit = func(p *ProbePool, args ...any) (act.PoolOptions, error) {
			initSelf(p)
			return act.PoolOptions{PoolSize: 2, WorkerFactory: ProbeFactory(wh)}, nil
		}
		th.PoolMessage = func(p *ProbePool, from gen.PID, m any) error {
			if s, ok := m.(string); ok && s == "setup" {
				a, err := p.CreateAlias()
				if err != nil {
					t.unexpected("CreateAlias inside a running callback of the target: " + err.Error())
				}
				t.alias = a
				return nil
			}
			return t.handle(p, m)
		}
		th.PoolCall = func(p *ProbePool, from gen.PID, ref gen.Ref, req any) (any, error) {
			if err := t.handle(p, req); err != nil {
				return nil, err
			}
			return "ok", nil
		}
		th.PoolTerminate = func(p *ProbePool, reason error) { t.onTerminate(reason) }
		factory = ProbePoolFactory(th)
	}
	// the target is spawned by a parent actor so that "exit from the parent" exists
	ph := &Hooks{Name: "parent", Env: e, Trap: true}
	t.parentCh = make(chan func(p *Probe), 16)
	spawned := make(chan struct{})
	ph.Message = func(p *Probe, from gen.PID, m any) error {
		switch m {
		case "spawn":
			pid, err := p.SpawnRegister("target", factory, gen.ProcessOptions{})
			if err != nil {
				e.Infra("spawn target: " + err.Error())
			}
			t.target = pid
			close(spawned)
		case "do":
			select {
			case f := <-t.parentCh:
				f(p)
			default:
			}
		}
		return nil
	}
	var err error
	t.parent, err = n.Spawn(ProbeFactory(ph), gen.ProcessOptions{})
	if err != nil {
		e.Infra("spawn parent: " + err.Error())
		return false
	}
	n.Send(t.parent, "spawn")
	if !e.WaitChan(spawned, time.Minute) {
		t.unexpected("parent actor did not handle the spawn message")
		return false
	}
	// setup goes with Max priority so that it is handled before any self-send
	if err := n.SendWithPriority(t.target, "setup", gen.MessagePriorityMax); err != nil {
		t.unexpected("send to the freshly spawned target: " + err.Error())
		return false
	}
	e.Settle(time.Millisecond)
	if c.Logger {
		if err := n.LoggerAddPID(t.target, "tlog", gen.LogLevelWarning); err != nil {
			t.unexpected("LoggerAddPID on the live target: " + err.Error())
			return false
		}
	}
	return true
}

// observers: one linked (trapping) and one monitoring actor
func (t *tRun) spawnObservers() bool {
	e, n := t.e, t.n
	ready := make(chan struct{}, 4)
	mk := func(name string, link bool, byName bool) bool {
		h := &Hooks{Name: name, Env: e, Trap: true}
		h.Message = func(p *Probe, from gen.PID, m any) error {
			switch v := m.(type) {
			case string:
				if v == "watch" {
					var err error
					var target any = t.target
					if t.c.Kind == "meta" {
						target = t.metaID
					} else if byName {
						// top-level trapping actors (their parent is the node core) watching the registered name
						target = gen.ProcessID{Name: "target", Node: n.Name()}
					}
					if link {
						err = p.Link(target)
					} else {
						err = p.Monitor(target)
					}
					if err != nil {
						t.unexpected("link/monitor on the target before any termination cause was issued: " + err.Error())
					}
					ready <- struct{}{}
				}
			case gen.MessageExitProcessID:
				t.mu.Lock()
				t.obsLinkName = append(t.obsLinkName, v.Reason)
				t.mu.Unlock()
			case gen.MessageDownProcessID:
				t.mu.Lock()
				t.obsMonName = append(t.obsMonName, v.Reason)
				t.mu.Unlock()
			case gen.MessageExitPID:
				t.mu.Lock()
				t.obsLink = append(t.obsLink, v.Reason)
				t.mu.Unlock()
			case gen.MessageExitAlias:
				t.mu.Lock()
				t.obsLink = append(t.obsLink, v.Reason)
				t.mu.Unlock()
			case gen.MessageDownPID:
				t.mu.Lock()
				t.obsMon = append(t.obsMon, v.Reason)
				t.mu.Unlock()
			case gen.MessageDownAlias:
				t.mu.Lock()
				t.obsMon = append(t.obsMon, v.Reason)
				t.mu.Unlock()
			}
			return nil
		}
		pid, err := n.Spawn(ProbeFactory(h), gen.ProcessOptions{})
		if err != nil {
			e.Infra("spawn observer: " + err.Error())
			return false
		}
		n.Send(pid, "watch")
		return true
	}
	if !mk("obs-link", true, false) || !mk("obs-mon", false, false) {
		return false
	}
	want := 2
	if t.c.Kind != "meta" {
		if !mk("obs-link-name", true, true) || !mk("obs-mon-name", false, true) {
			return false
		}
		want = 4
		t.nameObservers = true
	}
	e.Settle(time.Millisecond)
	if len(ready) != want {
		t.unexpected("observer actors did not handle their first message")
		return false
	}
	return true
}

func (t *tRun) doOp(who string, id int, op TOp, p *Probe) {
	e, n := t.e, t.n
	var dst any = t.target
	if t.c.Kind == "meta" {
		dst = t.metaID
	}
	var err error
	prio := prioOf(op.Prio)
	send := func(to any, m any) error {
		if p != nil {
			return p.SendWithPriority(to, m, prio)
		}
		return n.SendWithPriority(to, m, prio)
	}
	if p == nil {
		switch op.Op {
		case "call", "inspect", "sendafter", "exit":
			return // these need a process; dropped for node-API clients
		}
	}
	switch op.Op {
	case "send":
		err = send(dst, tMsg{ID: id})
	case "sendname":
		if t.c.Kind == "meta" {
			err = send(dst, tMsg{ID: id})
		} else {
			err = send(gen.Atom("target"), tMsg{ID: id})
		}
	case "sendalias":
		if t.c.Kind == "meta" {
			err = send(dst, tMsg{ID: id})
		} else {
			err = send(t.alias, tMsg{ID: id})
		}
	case "call":
		_, err = p.CallWithPriority(dst, tMsg{ID: id}, prio)
	case "inspect":
		if t.c.Kind == "meta" {
			_, err = p.InspectMeta(t.metaID)
		} else {
			_, err = p.Inspect(t.target)
		}
	case "sendafter":
		_, err = p.SendAfter(dst, tMsg{ID: id}, time.Duration(op.DelayMs)*time.Millisecond)
	case "callout":
		if t.c.Kind == "pool" && prio == gen.MessagePriorityNormal {
			prio = gen.MessagePriorityHigh // normal-priority traffic goes to the workers
		}
		err = send(dst, tMsg{ID: id, Do: "callout", Delay: op.DelayMs})
	case "log":
		n.Log().Warning("log line %d", id)
	case "err", "normal", "panic":
		if t.c.Kind == "pool" && prio == gen.MessagePriorityNormal {
			// normal-priority traffic is forwarded to the workers; instructions for the pool process itself go with High
			prio = gen.MessagePriorityHigh
		}
		err = send(dst, tMsg{ID: id, Do: op.Op})
		if err == nil {
			switch op.Op {
			case "err":
				t.addCause(fmt.Sprintf("boom%d", id))
			default:
				t.addCause(op.Op)
			}
		}
	case "kill":
		if t.c.Kind == "meta" {
			// a meta-process goes down with its owner
			err = n.Kill(t.target)
		} else {
			err = n.Kill(t.target)
		}
		if err == nil {
			t.addCause("kill")
		}
	case "exit":
		reason, key := c05Reason("xsig", id, t.c.Kind == "actor")
		if t.c.Kind == "meta" {
			err = p.SendExitMeta(t.metaID, reason)
			if err == nil {
				t.addCause(key)
			}
		} else {
			err = p.SendExit(t.target, reason)
			if err == nil && !(t.c.Trap && t.c.Kind == "actor") {
				t.addCause(key)
			}
		}
	case "parentexit":
		reason, key := c05Reason("xsig", id, t.c.Kind == "actor")
		done := make(chan struct{})
		t.parentCh <- func(pp *Probe) {
			if err := pp.SendExit(t.target, reason); err == nil {
				t.addCause(key)
				t.mu.Lock()
				t.parentExit = true
				t.mu.Unlock()
			}
			close(done)
		}
		err = send(t.parent, "do")
		if p == nil {
			e.WaitChan(done, time.Minute)
		}
	case "metapanic":
		// Start() of the meta-process panics (at any moment, e.g. while a callback is running)
		if t.pm != nil {
			select {
			case t.pm.Stop <- errMetaStartPanics:
				t.addCause("panic")
				t.mu.Lock()
				t.startReturned = true
				t.mu.Unlock()
			default:
			}
		}
	case "metastop":
		if t.pm != nil {
			select {
			case t.pm.Stop <- fmt.Errorf("boom%d", id):
				t.addCause(fmt.Sprintf("boom%d", id))
				t.mu.Lock()
				t.startReturned = true
				t.mu.Unlock()
			default:
			}
		}
	}
	t.mu.Lock()
	t.issued[op.Op]++
	t.mu.Unlock()
	e.Logf("%s op=%s id=%d -> %v", who, op.Op, id, err)
}

// runTarget executes the workload; afterwards the caller evaluates oracles.
// It returns false if the run is unusable.
func runTarget(prop string, e *simkit.Env, c *TCase) *tRun {
	n := simkit.StartLocalNode(e, "t@sim", func(o *gen.NodeOptions) {
		if c.Logger {
			o.Log.Level = gen.LogLevelWarning
		}
	})
	if n == nil {
		return nil
	}
	t := &tRun{prop: prop, e: e, c: c, n: n, issued: map[string]int{}}
	{
		// helper that answers the target's own requests after a delay, or never
		hh := &Hooks{Name: "helper", Env: e}
		hh.Call = func(p *Probe, from gen.PID, ref gen.Ref, req any) (any, error) {
			d, _ := req.(int)
			if d < 0 {
				return nil, nil // no reply: the caller's request times out
			}
			if d > 0 {
				e.Sleep(time.Duration(d) * time.Millisecond)
			}
			return "pong", nil
		}
		hp, err := n.Spawn(ProbeFactory(hh), gen.ProcessOptions{})
		if err != nil {
			e.Infra("spawn helper: " + err.Error())
			return nil
		}
		t.helper = hp
	}
	if !t.spawnTarget() || !t.spawnObservers() {
		simkit.StopNode(e, n, false, 0)
		return nil
	}
	for i, d := range c.Drivers {
		i, d := i, d
		who := fmt.Sprintf("d%d", i)
		base := (i + 1) * 100
		if !d.Actor {
			e.Go(who, func() {
				for j, op := range d.Ops {
					t.doOp(who, base+j, op, nil)
				}
			})
			continue
		}
		dh := &Hooks{Name: who, Env: e, Trap: true}
		done := make(chan struct{})
		dh.Message = func(p *Probe, from gen.PID, m any) error {
			if m == "go" {
				for j, op := range d.Ops {
					t.doOp(who, base+j, op, p)
				}
				close(done)
			}
			return nil
		}
		pid, err := n.Spawn(ProbeFactory(dh), gen.ProcessOptions{})
		if err != nil {
			e.Infra("spawn driver: " + err.Error())
			break
		}
		e.Go(who+"-kick", func() {
			n.Send(pid, "go")
			e.WaitChan(done, 10*time.Minute)
		})
	}
	e.WaitClients(20 * time.Minute)
	e.Settle(30 * time.Second)
	return t
}

func (t *tRun) targetAlive() bool {
	if t.c.Kind == "meta" {
		_, err := t.n.MetaInfo(t.metaID)
		return err == nil
	}
	_, err := t.n.ProcessInfo(t.target)
	return err == nil
}

func (t *tRun) stop() {
	simkit.StopNode(t.e, t.n, t.c.NodeStop, 2*time.Minute)
}

func (t *tRun) probes() {
	for k, v := range t.issued {
		if terminatingOps[k] {
			t.e.ProbeN("cause-"+k, v)
		}
	}
	if len(t.causes) >= 2 {
		t.e.Probe("racing-causes")
	}
}
