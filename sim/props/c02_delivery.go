package props

import (
	"errors"
	"fmt"
	"sync"
	"time"

	"ergo.services/ergo/gen"

	"verifsim/simkit"
)

// C02 Local delivery: exactly once, no lost wake-up, truthful send result.

type C02Op struct {
	Mode string `json:"mode"` // pid | name | alias | call | exit | event
	Prio int    `json:"prio"` // 0 normal, 1 high, 2 max
}

type C02Sender struct {
	Actor bool    `json:"actor"`
	Ops   []C02Op `json:"ops"`
}

type C02Delay struct {
	Mode     string `json:"mode"` // pid | name | alias
	DelayMs  int    `json:"delay_ms"`
	CancelMs int    `json:"cancel_ms"` // <0: never cancelled
}

type C02Case struct {
	Mailbox   int         `json:"mailbox"`  // 0 = unbounded
	Fallback  string      `json:"fallback"` // "" | fb | missing | self
	FbMailbox int         `json:"fb_mailbox"`
	Slow      bool        `json:"slow"`
	InitSelf  int         `json:"init_self"`
	Senders   []C02Sender `json:"senders"`
	Delayed   []C02Delay  `json:"delayed"`
	// Meta: the receiver is a meta-process (addressed by its alias; its mailbox is unbounded)
	Meta bool `json:"meta,omitempty"`
	// Late: a second receiver "late" is being spawned (SpawnRegister, Init with scheduling points and
	// self-sends) while the senders already address it by name (ops with mode "late")
	Late     bool `json:"late,omitempty"`
	LateFail bool `json:"late_fail,omitempty"` // its Init fails
	LateSelf bool `json:"late_self,omitempty"` // its Init sends a message to itself
}

type c02 struct{}

func init() { Register(c02{}) }

func (c02) ID() string    { return "C02" }
func (c02) Level() string { return "exploration" }
func (c02) NewCase() any  { return &C02Case{} }
func (c02) Nontrivial() []string {
	return []string{"send-while-receiver-running", "refused-mailbox-full", "fallback-taken", "cancel-after-fire", "cancel-before-fire", "accepted-during-init"}
}
func (c02) Rule() string {
	return "case = receiver (mailbox size, fallback setting, slow/fast handler, self-sends in Init) + 2-6 concurrent senders " +
		"(node-API clients and actors) with 1-8 sends each over pid/name/alias, three priorities, requests, trapped exit signals, events, " +
		"plus delayed sends with a cancel instant; in one case out of four a second receiver is being spawned under a registered name while senders already address that name (accepted before Init returned => handled after it); every interleaving decision is drawn by the seeded scheduler. " +
		"A run is non-trivial when at least one send completed while the receiver was running, was refused, took the fallback, or a cancel raced a delayed send; " +
		"distinct = distinct (schedule hash, history hash)."
}
func (c02) Components() ([]string, []string) {
	return []string{"node (process runtime, mailboxes, routing)", "act.Actor", "lib.QueueMPSC", "gen"},
		[]string{"network disabled", "default logger disabled", "OS signals"}
}

func (c02) Generate(r *simkit.Rand, tier string) any {
	c := &C02Case{}
	c.Mailbox = simkit.Pick(r, 0, 0, 1, 2, 3, 5)
	if c.Mailbox > 0 {
		c.Fallback = simkit.Pick(r, "", "fb", "fb", "missing", "self")
		c.FbMailbox = simkit.Pick(r, 0, 0, 1, 2)
	}
	c.Slow = r.Chance(0.6)
	c.InitSelf = simkit.Pick(r, 0, 0, 1, 2)
	if r.Chance(0.2) {
		c.Meta = true
		c.Mailbox, c.Fallback, c.InitSelf = 0, "", 0
	}
	ns := r.Range(2, 5)
	maxOps := 6
	if tier == "thorough" {
		ns = r.Range(2, 6)
		maxOps = 8
	}
	for i := 0; i < ns; i++ {
		s := C02Sender{Actor: r.Chance(0.5)}
		for j, n := 0, r.Range(1, maxOps); j < n; j++ {
			op := C02Op{Prio: simkit.Pick(r, 0, 0, 0, 1, 2)}
			if s.Actor {
				op.Mode = simkit.Pick(r, "pid", "name", "alias", "pid", "call", "exit", "event")
			} else {
				op.Mode = simkit.Pick(r, "pid", "name", "alias")
			}
			s.Ops = append(s.Ops, op)
		}
		c.Senders = append(c.Senders, s)
	}
	if !c.Meta && r.Chance(0.25) {
		c.Late = true
		c.LateFail = r.Chance(0.2)
		c.LateSelf = r.Bool()
		if r.Bool() {
			// a single message for the late receiver, nothing after it: if it is accepted while Init
			// is still running, nothing but the runtime itself can wake the receiver up for it
			i := r.Intn(len(c.Senders))
			op := C02Op{Mode: "late", Prio: simkit.Pick(r, 0, 1, 2)}
			c.Senders[i].Ops = append([]C02Op{op}, c.Senders[i].Ops...)
		} else {
			for i := range c.Senders {
				for j, n := 0, r.Range(1, 3); j < n; j++ {
					op := C02Op{Mode: "late", Prio: simkit.Pick(r, 0, 0, 1, 2)}
					k := r.Intn(len(c.Senders[i].Ops) + 1)
					ops := append([]C02Op{}, c.Senders[i].Ops[:k]...)
					ops = append(ops, op)
					c.Senders[i].Ops = append(ops, c.Senders[i].Ops[k:]...)
				}
			}
		}
	}
	for i, n := 0, simkit.Pick(r, 0, 0, 1, 2, 3); i < n; i++ {
		d := C02Delay{Mode: simkit.Pick(r, "pid", "name", "alias"), DelayMs: simkit.Pick(r, 1, 10, 10, 50, 200)}
		switch r.Intn(4) {
		case 0:
			d.CancelMs = -1
		case 1:
			d.CancelMs = d.DelayMs
		case 2:
			d.CancelMs = d.DelayMs - 1
		default:
			d.CancelMs = d.DelayMs + simkit.Pick(r, 0, 1, 5)
		}
		c.Delayed = append(c.Delayed, d)
	}
	return c
}

func (c02) Shrink(cc any) []any {
	c := cc.(*C02Case)
	var out []any
	for i := range c.Senders {
		n := cloneJSON(c)
		n.Senders = dropAt(n.Senders, i)
		out = append(out, n)
	}
	for i := range c.Delayed {
		n := cloneJSON(c)
		n.Delayed = dropAt(n.Delayed, i)
		out = append(out, n)
	}
	for i := range c.Senders {
		for j := range c.Senders[i].Ops {
			if len(c.Senders[i].Ops) == 1 {
				continue
			}
			n := cloneJSON(c)
			n.Senders[i].Ops = dropAt(n.Senders[i].Ops, j)
			out = append(out, n)
		}
	}
	if c.InitSelf > 0 {
		n := cloneJSON(c)
		n.InitSelf = 0
		out = append(out, n)
	}
	if c.Late {
		n := cloneJSON(c)
		n.Late, n.LateFail = false, false
		for i := range n.Senders {
			var ops []C02Op
			for _, op := range n.Senders[i].Ops {
				if op.Mode != "late" {
					ops = append(ops, op)
				}
			}
			n.Senders[i].Ops = ops
		}
		out = append(out, n)
	}
	if c.Slow {
		n := cloneJSON(c)
		n.Slow = false
		out = append(out, n)
	}
	if c.Fallback != "" {
		n := cloneJSON(c)
		n.Fallback = ""
		out = append(out, n)
	}
	for i := range c.Senders {
		for j := range c.Senders[i].Ops {
			op := c.Senders[i].Ops[j]
			if op.Mode != "pid" || op.Prio != 0 {
				n := cloneJSON(c)
				n.Senders[i].Ops[j] = C02Op{Mode: "pid"}
				out = append(out, n)
			}
		}
	}
	return out
}

type c02Handled struct {
	mu   sync.Mutex
	late map[int]int // id -> times handled by the late receiver
	rcv  map[int]int // id -> times handled by the receiver
	fb   map[int]int // id -> times handled by the fallback
	bad  []string
}

type c02Result struct {
	id    int
	op    C02Op
	err   error
	reply any
	who   string
}

const c02Tag = "c02-tag"

func queueOf(op C02Op) int {
	if op.Mode == "exit" {
		return 2
	}
	return op.Prio
}

func prioOf(p int) gen.MessagePriority {
	switch p {
	case 1:
		return gen.MessagePriorityHigh
	case 2:
		return gen.MessagePriorityMax
	}
	return gen.MessagePriorityNormal
}

func (c02) Run(e *simkit.Env, cc any) {
	c := cc.(*C02Case)
	n := simkit.StartLocalNode(e, "c02@sim", nil)
	if n == nil {
		return
	}
	defer simkit.StopNode(e, n, false, 0)
	if c.Meta {
		runC02Meta(e, n, c)
		return
	}

	hd := &c02Handled{rcv: map[int]int{}, fb: map[int]int{}, late: map[int]int{}}
	var rcvPID gen.PID
	var rcvAlias gen.Alias
	var results []c02Result
	var resMu sync.Mutex
	record := func(r c02Result) {
		resMu.Lock()
		results = append(results, r)
		resMu.Unlock()
		e.Logf("send %s id=%d mode=%s prio=%d -> %v", r.who, r.id, r.op.Mode, r.op.Prio, r.err)
	}

	// fallback process
	if c.Fallback == "fb" {
		fh := &Hooks{Name: "fb", Env: e, Slow: c.Slow}
		fh.Message = func(p *Probe, from gen.PID, m any) error {
			fm, ok := m.(gen.MessageFallback)
			if !ok {
				hd.mu.Lock()
				hd.bad = append(hd.bad, fmt.Sprintf("fallback got %#v", m))
				hd.mu.Unlock()
				return nil
			}
			id, _ := fm.Message.(int)
			e.Logf("fb handled id=%d", id)
			hd.mu.Lock()
			hd.fb[id]++
			if fm.PID != rcvPID || fm.Tag != c02Tag {
				hd.bad = append(hd.bad, fmt.Sprintf("fallback wrapper for id=%d has pid/tag %v/%q", id, fm.PID == rcvPID, fm.Tag))
			}
			hd.mu.Unlock()
			return nil
		}
		if _, err := n.SpawnRegister("fb", ProbeFactory(fh), gen.ProcessOptions{MailboxSize: int64(c.FbMailbox)}); err != nil {
			e.Infra("spawn fb: " + err.Error())
			return
		}
	}

	// event used by "event" ops
	token, err := n.RegisterEvent("c02ev", gen.EventOptions{})
	if err != nil {
		e.Infra("register event: " + err.Error())
		return
	}

	// receiver
	rh := &Hooks{Name: "rcv", Env: e, Slow: c.Slow, Trap: true}
	handled := func(kind string, id int) {
		e.Logf("rcv handled %s id=%d", kind, id)
		hd.mu.Lock()
		hd.rcv[id]++
		hd.mu.Unlock()
	}
	var initErrs []error
	rh.Init = func(p *Probe, args ...any) error {
		for i := 0; i < c.InitSelf; i++ {
			initErrs = append(initErrs, p.Send(p.PID(), 9000+i))
		}
		return nil
	}
	setupDone := false
	rh.Message = func(p *Probe, from gen.PID, m any) error {
		switch v := m.(type) {
		case string:
			if v == "setup" {
				a, err := p.CreateAlias()
				if err != nil {
					e.Infra("CreateAlias: " + err.Error())
				}
				rcvAlias = a
				if _, err := p.MonitorEvent(gen.Event{Name: "c02ev", Node: p.Node().Name()}); err != nil {
					e.Infra("MonitorEvent: " + err.Error())
				}
				setupDone = true
			}
		case int:
			handled("msg", v)
		case gen.MessageExitPID:
			var id int
			fmt.Sscanf(v.Reason.Error(), "x%d", &id)
			handled("exit", id)
		default:
			hd.mu.Lock()
			hd.bad = append(hd.bad, fmt.Sprintf("receiver got unexpected %#v", m))
			hd.mu.Unlock()
		}
		return nil
	}
	rh.Call = func(p *Probe, from gen.PID, ref gen.Ref, req any) (any, error) {
		id := req.(int)
		handled("call", id)
		return id + 1000000, nil
	}
	rh.Event = func(p *Probe, ev gen.MessageEvent) error {
		handled("event", ev.Message.(int))
		return nil
	}
	opts := gen.ProcessOptions{MailboxSize: int64(c.Mailbox)}
	switch c.Fallback {
	case "fb":
		opts.Fallback = gen.ProcessFallback{Enable: true, Name: "fb", Tag: c02Tag}
	case "missing":
		opts.Fallback = gen.ProcessFallback{Enable: true, Name: "nobody", Tag: c02Tag}
	case "self":
		opts.Fallback = gen.ProcessFallback{Enable: true, Name: "rcv", Tag: c02Tag}
	}
	rcvPID, err = n.SpawnRegister("rcv", ProbeFactory(rh), opts)
	if err != nil {
		e.Infra("spawn rcv: " + err.Error())
		return
	}
	e.Settle(time.Millisecond)
	if err := n.Send(rcvPID, "setup"); err != nil {
		e.Infra("setup send: " + err.Error())
		return
	}
	e.Settle(time.Millisecond)
	if !setupDone {
		// the receiver never handled the setup message although its send succeeded
		e.Fail("C02/accepted-not-handled", "setup message accepted by the receiver was not handled at quiescence")
		return
	}

	observe := func() {
		if st, err := n.ProcessState(rcvPID); err == nil && st == gen.ProcessStateRunning {
			e.Probe("send-while-receiver-running")
		}
	}

	// late receiver: spawned while the senders run
	var latePID gen.PID
	var lateErr error
	lateInitDone := false
	if c.Late {
		lh := &Hooks{Name: "late", Env: e, Slow: true, Trap: true}
		lh.Init = func(p *Probe, args ...any) error {
			e.Gate("late:init")
			if c.LateSelf {
				if err := p.Send(p.PID(), 9500); err != nil {
					e.Fail("C02/refused-with-room", "self-send in Init of the late receiver failed: %v", err)
				}
			}
			e.Gate("late:init-end")
			lateInitDone = true
			if c.LateFail {
				return fmt.Errorf("late init fails")
			}
			return nil
		}
		lh.Message = func(p *Probe, from gen.PID, m any) error {
			if id, ok := m.(int); ok {
				e.Logf("late handled id=%d", id)
				hd.mu.Lock()
				hd.late[id]++
				hd.mu.Unlock()
			}
			return nil
		}
		e.Go("late-spawner", func() {
			latePID, lateErr = n.SpawnRegister("late", ProbeFactory(lh), gen.ProcessOptions{})
			e.Logf("late receiver spawned: %v", lateErr)
		})
	}

	// senders
	runOps := func(who string, base int, ops []C02Op, p *Probe) {
		for j, op := range ops {
			id := base + j
			res := c02Result{id: id, op: op, who: who}
			var to any
			switch op.Mode {
			case "pid", "call":
				to = rcvPID
			case "name":
				to = gen.Atom("rcv")
			case "alias":
				to = rcvAlias
			case "late":
				to = gen.Atom("late")
			}
			switch {
			case op.Mode == "call":
				res.reply, res.err = p.CallWithPriority(to, id, prioOf(op.Prio))
			case op.Mode == "exit":
				res.err = p.SendExit(rcvPID, fmt.Errorf("x%d", id))
			case op.Mode == "event":
				res.err = p.SendEvent("c02ev", token, id)
			case p != nil:
				res.err = p.SendWithPriority(to, id, prioOf(op.Prio))
			default:
				res.err = n.SendWithPriority(to, id, prioOf(op.Prio))
			}
			observe()
			if op.Mode == "late" && res.err == nil && !lateInitDone {
				e.Probe("accepted-during-init")
			}
			record(res)
		}
	}
	for i, s := range c.Senders {
		i, s := i, s
		base := (i + 1) * 100
		who := fmt.Sprintf("s%d", i)
		if !s.Actor {
			e.Go(who, func() { runOps(who, base, s.Ops, nil) })
			continue
		}
		sh := &Hooks{Name: who, Env: e}
		done := make(chan struct{})
		sh.Message = func(p *Probe, from gen.PID, m any) error {
			if m == "go" {
				runOps(who, base, s.Ops, p)
				close(done)
			}
			return nil
		}
		spid, err := n.Spawn(ProbeFactory(sh), gen.ProcessOptions{})
		if err != nil {
			e.Infra("spawn sender: " + err.Error())
			return
		}
		e.Go(who+"-kick", func() {
			if err := n.Send(spid, "go"); err != nil {
				e.Infra("kick: " + err.Error())
				return
			}
			if !e.WaitChan(done, 5*time.Minute) {
				e.Fail("C02/accepted-not-handled", "the start message accepted by sender actor %s was not handled within 5 simulated minutes", who)
			}
		})
	}

	// delayed sends
	type delayState struct {
		cancel    gen.CancelFunc
		cancelled int // 0 not attempted, 1 true, 2 false
	}
	dstate := make([]delayState, len(c.Delayed))
	if len(c.Delayed) > 0 {
		th := &Hooks{Name: "timer", Env: e}
		armed := make(chan struct{})
		th.Message = func(p *Probe, from gen.PID, m any) error {
			if m != "arm" {
				return nil
			}
			for i, d := range c.Delayed {
				var to any
				switch d.Mode {
				case "pid":
					to = rcvPID
				case "name":
					to = gen.Atom("rcv")
				default:
					to = rcvAlias
				}
				cancel, err := p.SendAfter(to, 5000+i, time.Duration(d.DelayMs)*time.Millisecond)
				if err != nil {
					e.Infra("SendAfter: " + err.Error())
				}
				dstate[i].cancel = cancel
			}
			close(armed)
			return nil
		}
		tpid, err := n.Spawn(ProbeFactory(th), gen.ProcessOptions{})
		if err != nil {
			e.Infra("spawn timer: " + err.Error())
			return
		}
		n.Send(tpid, "arm")
		for i, d := range c.Delayed {
			i, d := i, d
			if d.CancelMs < 0 {
				continue
			}
			e.Go(fmt.Sprintf("cancel%d", i), func() {
				if !e.WaitChan(armed, time.Minute) {
					e.Fail("C02/accepted-not-handled", "the arm message accepted by the timer actor was not handled within a simulated minute")
					return
				}
				e.Sleep(time.Duration(d.CancelMs) * time.Millisecond)
				if dstate[i].cancel() {
					dstate[i].cancelled = 1
					e.Probe("cancel-before-fire")
				} else {
					dstate[i].cancelled = 2
					e.Probe("cancel-after-fire")
				}
				e.Logf("cancel %d -> %v", i, dstate[i].cancelled == 1)
			})
		}
	}

	if !e.WaitClients(10 * time.Minute) {
		e.Fail("C02/client-stuck", "a sender did not finish within 10 simulated minutes")
		return
	}
	e.Settle(10 * time.Second)
	if e.Failed() {
		return
	}

	// ---- oracles ----
	// no handler of this workload panics: a panic raised by code of the repository means a send
	// neither reported success nor an error
	if ps := e.InternalPanics(); len(ps) > 0 {
		e.Fail("C02/send-panicked", "code of the repository panicked while messages were sent or handled: %s", ps[0])
		return
	}
	hd.mu.Lock()
	defer hd.mu.Unlock()
	for _, b := range hd.bad {
		e.Fail("C02/wrong-delivery", "%s", b)
		return
	}
	perQueue := [3]int{}
	perQueue[0] += c.InitSelf + len(c.Delayed)
	for _, s := range c.Senders {
		for _, op := range s.Ops {
			if op.Mode == "late" {
				continue
			}
			if op.Mode != "event" {
				perQueue[queueOf(op)]++
			} else {
				perQueue[0]++ // SendEvent uses the sender's default priority
			}
		}
	}
	fallbackEligible := func(op C02Op) bool {
		return c.Fallback == "fb" && (op.Mode == "pid" || op.Mode == "name" || op.Mode == "alias")
	}
	for _, r := range results {
		nr, nf := hd.rcv[r.id], hd.fb[r.id]
		switch {
		case r.op.Mode == "late":
			nl := hd.late[r.id]
			if nr+nf != 0 {
				e.Fail("C02/wrong-delivery", "id=%d addressed to the name \"late\" was handled by another process", r.id)
				return
			}
			switch {
			case r.err != nil && nl != 0:
				e.Fail("C02/refused-but-handled", "%s late id=%d returned %v but was handled %d times by the late receiver", r.who, r.id, r.err, nl)
				return
			case r.err != nil && !errors.Is(r.err, gen.ErrProcessUnknown) && !(c.LateFail && errors.Is(r.err, gen.ErrProcessTerminated)):
				e.Fail("C02/spurious-error", "%s late id=%d: send to a name that is being registered (unbounded mailbox) failed with %v", r.who, r.id, r.err)
				return
			case r.err == nil && nl > 1:
				e.Fail("C02/accepted-not-handled-once", "%s late id=%d reported success and was handled %d times", r.who, r.id, nl)
				return
			case r.err == nil && nl == 0 && !c.LateFail:
				e.Fail("C02/accepted-not-handled-once", "%s late id=%d (prio %d) reported success - the receiver was being spawned and stays alive - but was never handled", r.who, r.id, r.op.Prio)
				return
			}
		case r.op.Mode == "event":
			if r.err != nil {
				e.Fail("C02/spurious-error", "SendEvent id=%d with the valid token failed: %v", r.id, r.err)
				return
			}
			if nr > 1 || (c.Mailbox == 0 && nr != 1) {
				e.Fail("C02/event-count", "event id=%d handled %d times by the subscribed receiver (mailbox %d)", r.id, nr, c.Mailbox)
				return
			}
		case r.err == nil:
			if nr+nf != 1 {
				e.Fail("C02/accepted-not-handled-once", "%s %s id=%d prio=%d reported success but was handled %d times by the receiver and %d times by the fallback (mailbox=%d fallback=%q)",
					r.who, r.op.Mode, r.id, r.op.Prio, nr, nf, c.Mailbox, c.Fallback)
				return
			}
			if nf == 1 {
				e.Probe("fallback-taken")
				if !fallbackEligible(r.op) {
					e.Fail("C02/wrong-delivery", "%s id=%d reached the fallback process although no fallback applies", r.op.Mode, r.id)
					return
				}
			}
			if r.op.Mode == "call" && r.reply != r.id+1000000 {
				e.Fail("C02/wrong-reply", "call id=%d returned %v", r.id, r.reply)
				return
			}
		default:
			if nr+nf != 0 {
				e.Fail("C02/refused-but-handled", "%s %s id=%d returned %v but was handled (receiver %d, fallback %d)", r.who, r.op.Mode, r.id, r.err, nr, nf)
				return
			}
			full := errors.Is(r.err, gen.ErrProcessMailboxFull)
			if full {
				e.Probe("refused-mailbox-full")
			}
			okErr := false
			switch {
			case full && c.Mailbox > 0:
				okErr = true
				if perQueue[queueOf(r.op)] <= c.Mailbox && !fallbackEligible(r.op) {
					e.Fail("C02/refused-with-room", "%s id=%d refused with mailbox full although at most %d messages were ever sent to that queue of size %d",
						r.op.Mode, r.id, perQueue[queueOf(r.op)], c.Mailbox)
					return
				}
			case errors.Is(r.err, gen.ErrProcessUnknown) && c.Mailbox > 0 && c.Fallback == "missing":
				okErr = true
			case errors.Is(r.err, gen.ErrTimeout) && r.op.Mode == "call":
				// the request was accepted; a timeout with a live receiver means it was never answered
				okErr = false
			}
			if !okErr {
				e.Fail("C02/spurious-error", "%s %s id=%d to a live receiver (mailbox=%d fallback=%q) failed with %v", r.who, r.op.Mode, r.id, c.Mailbox, c.Fallback, r.err)
				return
			}
		}
	}
	for i, ierr := range initErrs {
		id := 9000 + i
		nr := hd.rcv[id]
		if (ierr == nil) != (nr == 1) || nr > 1 {
			e.Fail("C02/self-send-in-init", "self-send %d during Init returned %v and was handled %d times", id, ierr, nr)
			return
		}
		if ierr != nil && c.Mailbox == 0 {
			e.Fail("C02/spurious-error", "self-send during Init failed with %v on an unbounded mailbox", ierr)
			return
		}
	}
	for i, d := range c.Delayed {
		id := 5000 + i
		nr, nf := hd.rcv[id], hd.fb[id]
		switch {
		case dstate[i].cancelled == 1:
			if nr+nf != 0 {
				e.Fail("C02/cancelled-but-sent", "delayed send %d (delay %dms, cancel at %dms): cancel reported success but the message was delivered", i, d.DelayMs, d.CancelMs)
				return
			}
		case c.Mailbox == 0:
			if nr != 1 {
				e.Fail("C02/delayed-not-once", "delayed send %d (delay %dms, cancel at %dms -> not cancelled) was delivered %d times", i, d.DelayMs, d.CancelMs, nr)
				return
			}
		default:
			if nr+nf > 1 {
				e.Fail("C02/delayed-not-once", "delayed send %d was delivered %d times", i, nr+nf)
				return
			}
		}
	}
	if c.Late {
		nl := hd.late[9500]
		switch {
		case c.LateFail:
			if lateErr == nil {
				e.Fail("C02/wrong-delivery", "SpawnRegister of the late receiver succeeded although its Init failed")
				return
			}
		case lateErr != nil:
			e.Fail("C02/spurious-error", "SpawnRegister of the late receiver failed: %v", lateErr)
			return
		case c.LateSelf && nl != 1:
			e.Fail("C02/self-send-in-init", "the self-send made in Init of the late receiver was handled %d times", nl)
			return
		default:
			info, err := n.ProcessInfo(latePID)
			if err != nil {
				e.Fail("C02/receiver-gone", "the late receiver is gone at quiescence: %v", err)
				return
			}
			q := info.MailboxQueues
			if q.Main != 0 || q.System != 0 || q.Urgent != 0 || q.Log != 0 || info.State != gen.ProcessStateSleep {
				e.Fail("C02/lost-wakeup", "late receiver at quiescence: state=%s mailbox main=%d system=%d urgent=%d log=%d", info.State, q.Main, q.System, q.Urgent, q.Log)
				return
			}
		}
	}
	// timing independent witness: nothing may be left in a mailbox of a sleeping process
	for _, who := range []gen.Atom{"rcv", "fb"} {
		if who == "fb" && c.Fallback != "fb" {
			continue
		}
		var pid gen.PID
		if who == "rcv" {
			pid = rcvPID
		} else {
			infos, _ := n.ProcessList()
			for _, p := range infos {
				if pi, err := n.ProcessInfo(p); err == nil && pi.Name == who {
					pid = p
				}
			}
		}
		info, err := n.ProcessInfo(pid)
		if err != nil {
			e.Fail("C02/receiver-gone", "%s is gone at quiescence: %v", who, err)
			return
		}
		q := info.MailboxQueues
		if q.Main != 0 || q.System != 0 || q.Urgent != 0 || q.Log != 0 || info.State != gen.ProcessStateSleep {
			e.Fail("C02/lost-wakeup", "%s at quiescence: state=%s mailbox main=%d system=%d urgent=%d log=%d", who, info.State, q.Main, q.System, q.Urgent, q.Log)
			return
		}
	}
}

// runC02Meta: the same conservation law with a meta-process as the receiver: every send or
// request to its alias that reported success is handled exactly once, nothing else is handled,
// and nothing stays queued at quiescence.
func runC02Meta(e *simkit.Env, n gen.Node, c *C02Case) {
	var mu sync.Mutex
	handled := map[int]int{}
	var bad []string
	mh := &Hooks{Name: "meta", Env: e, Slow: c.Slow}
	mh.MetaMessage = func(m *ProbeMeta, from gen.PID, msg any) error {
		id, ok := msg.(int)
		mu.Lock()
		if ok {
			handled[id]++
		} else {
			bad = append(bad, fmt.Sprintf("meta-process handled a message nobody sent: %#v from %v", msg, from))
		}
		mu.Unlock()
		e.Logf("meta handled msg %v", msg)
		return nil
	}
	mh.MetaCall = func(m *ProbeMeta, from gen.PID, ref gen.Ref, req any) (any, error) {
		id, ok := req.(int)
		mu.Lock()
		if ok {
			handled[id]++
		} else {
			bad = append(bad, fmt.Sprintf("meta-process handled a request nobody sent: %#v", req))
		}
		mu.Unlock()
		e.Logf("meta handled call %v", req)
		return id + 1000000, nil
	}
	pm := NewProbeMeta(mh)
	var metaID gen.Alias
	spawned := make(chan struct{})
	oh := &Hooks{Name: "meta-owner", Env: e}
	oh.Message = func(p *Probe, from gen.PID, m any) error {
		if m == "spawn" {
			id, err := p.SpawnMeta(pm, gen.MetaOptions{})
			if err != nil {
				e.Infra("SpawnMeta: " + err.Error())
			}
			metaID = id
			close(spawned)
		}
		return nil
	}
	opid, err := n.Spawn(ProbeFactory(oh), gen.ProcessOptions{})
	if err != nil {
		e.Infra("spawn: " + err.Error())
		return
	}
	n.Send(opid, "spawn")
	if !e.WaitChan(spawned, time.Minute) {
		e.Infra("meta owner did not start the meta-process")
		return
	}
	e.Settle(time.Millisecond)
	type res struct {
		id    int
		call  bool
		err   error
		reply any
	}
	var results []res
	for si, sd := range c.Senders {
		si, sd := si, sd
		who := fmt.Sprintf("s%d", si)
		run := func(p *Probe) {
			for j, op := range sd.Ops {
				id := (si+1)*100 + j
				r := res{id: id}
				switch {
				case op.Mode == "call" && p != nil:
					r.call = true
					r.reply, r.err = p.CallWithTimeout(metaID, id, 5)
				case p != nil:
					r.err = p.SendWithPriority(metaID, id, prioOf(op.Prio))
				default:
					r.err = n.SendWithPriority(metaID, id, prioOf(op.Prio))
				}
				mu.Lock()
				results = append(results, r)
				mu.Unlock()
				e.Logf("%s -> meta id=%d call=%v -> %v", who, id, r.call, r.err)
			}
		}
		if !sd.Actor {
			e.Go(who, func() { run(nil) })
			continue
		}
		done := make(chan struct{})
		sh := &Hooks{Name: who, Env: e}
		sh.Message = func(p *Probe, from gen.PID, m any) error {
			if m == "go" {
				run(p)
				close(done)
			}
			return nil
		}
		spid, err := n.Spawn(ProbeFactory(sh), gen.ProcessOptions{})
		if err != nil {
			e.Infra("spawn sender: " + err.Error())
			return
		}
		e.Go(who+"-kick", func() {
			n.Send(spid, "go")
			e.WaitChan(done, 10*time.Minute)
		})
	}
	if !e.WaitClients(20 * time.Minute) {
		e.Fail("C02/sender-stuck", "a sender to the meta-process did not finish")
		return
	}
	e.Settle(time.Minute)
	mu.Lock()
	defer mu.Unlock()
	if len(bad) > 0 {
		e.Fail("C02/handled-but-never-sent", "%s", bad[0])
		return
	}
	for _, r := range results {
		h := handled[r.id]
		switch {
		case r.err == nil && h != 1:
			e.Fail("C02/accepted-not-handled", "meta-process receiver: id=%d (call=%v) reported success but was handled %d times", r.id, r.call, h)
			return
		case r.err != nil && !r.call && h != 0:
			e.Fail("C02/refused-but-handled", "meta-process receiver: send id=%d returned %v but was handled %d times", r.id, r.err, h)
			return
		case r.call && r.err == nil && r.reply != r.id+1000000:
			e.Fail("C02/wrong-reply", "meta-process receiver: call id=%d returned %v", r.id, r.reply)
			return
		case r.call && r.err != nil:
			e.Fail("C02/accepted-not-handled", "meta-process receiver: call id=%d to the live meta-process failed: %v (handled %d times)", r.id, r.err, h)
			return
		}
		e.Probe("send-while-receiver-running")
	}
	if mi, err := n.MetaInfo(metaID); err == nil {
		if q := mi.MailboxQueues.Main + mi.MailboxQueues.System; q != 0 {
			e.Fail("C02/lost-wakeup", "the meta-process has %d messages in its mailbox at quiescence", q)
			return
		}
	}
	e.Probe("meta-process-receiver")
}
