package props

import (
	"fmt"
	"strconv"
	"sync"
	"time"

	"ergo.services/ergo/act"
	"ergo.services/ergo/gen"
	"ergo.services/ergo/net/edf"

	"verifsim/simkit"
)

// C19 Pool dispatch: each request to exactly one live worker.

type C19Op struct {
	Kind string `json:"kind"` // send | slow | call | calldie (the worker answers and terminates normally) | high | killworker | panicworker | add | remove
	N    int    `json:"n"`
}

type C19Case struct {
	Size    int       `json:"size"`
	Mailbox int       `json:"mailbox"` // worker mailbox size, 0 unbounded
	Slow    bool      `json:"slow"`
	Clients [][]C19Op `json:"clients"` // client 0.. are actors (can call)
	// RemoteLast: the last client lives on a second node and reaches the pool over the simulated network
	RemoteLast bool `json:"remote_last,omitempty"`
}

type c19 struct{}

func init() { Register(c19{}) }

func init() {
	for _, v := range []any{c19Item{}, c19Ctl{}} {
		if err := edf.RegisterTypeOf(v); err != nil && err != gen.ErrTaken {
			panic(err)
		}
	}
}

func (c19) ID() string    { return "C19" }
func (c19) Level() string { return "exploration" }
func (c19) NewCase() any  { return &C19Case{} }
func (c19) Nontrivial() []string {
	return []string{"worker-crashed", "worker-mailbox-full-skipped", "all-workers-full", "ring-resized", "dead-worker-replaced"}
}
func (c19) Rule() string {
	return "case = act.Pool with 1-5 workers, worker mailbox size unbounded/1/2, slow or fast workers + 1-3 concurrent actor clients issuing numbered sends and calls (normal priority), High-priority messages for the pool itself, " +
		"worker kills / worker panics at drawn instants and AddWorkers/RemoveWorkers. Oracle: no item is handled twice; without crashes every item is handled exactly once unless the pool counted it as unhandled (all workers full); " +
		"with crashes the number of missing items is bounded by what could sit at the crashed workers; a call returns the reply produced for its own id by a worker that saw the original sender; High-priority items are handled by the pool process; " +
		"after traffic has passed over a dead worker the ring is back at its expected size. Non-trivial = a crash, a full worker mailbox, or a ring resize happened; distinct = distinct (schedule, history) hashes."
}
func (c19) Components() ([]string, []string) {
	return []string{"act.Pool (forward, ring, respawn)", "node Forward / mailbox limits"}, []string{"network disabled", "default logger disabled"}
}

func (c19) Generate(r *simkit.Rand, tier string) any {
	c := &C19Case{Size: r.Range(1, 5), Mailbox: simkit.Pick(r, 0, 0, 1, 2), Slow: r.Chance(0.6)}
	maxOps := 6
	if tier == "thorough" {
		maxOps = 10
	}
	for i, n := 0, r.Range(1, 3); i < n; i++ {
		var ops []C19Op
		for j, m := 0, r.Range(2, maxOps); j < m; j++ {
			k := simkit.Pick(r, "send", "send", "send", "slow", "call", "call", "high", "killworker", "killworker", "panicworker", "add", "remove", "call", "calldie")
			ops = append(ops, C19Op{Kind: k, N: r.Range(1, 2)})
		}
		c.Clients = append(c.Clients, ops)
	}
	c.RemoteLast = r.Chance(0.25)
	return c
}

func (c19) Shrink(cc any) []any {
	c := cc.(*C19Case)
	var out []any
	for i := range c.Clients {
		if len(c.Clients) > 1 {
			n := cloneJSON(c)
			n.Clients = dropAt(n.Clients, i)
			out = append(out, n)
		}
	}
	for i := range c.Clients {
		for j := range c.Clients[i] {
			n := cloneJSON(c)
			n.Clients[i] = dropAt(n.Clients[i], j)
			out = append(out, n)
		}
	}
	if c.RemoteLast {
		n := cloneJSON(c)
		n.RemoteLast = false
		out = append(out, n)
	}
	return out
}

type c19Item struct {
	ID   int
	Slow bool // the worker stays in the handler for 300 simulated ms
	Die  bool // (call) the worker answers and terminates with reason normal
}
type c19Ctl struct {
	Do string
	N  int
}

func (c19) Run(e *simkit.Env, cc any) {
	c := cc.(*C19Case)
	var n, rn gen.Node // rn: the node of the remote client
	if c.RemoteLast {
		sn := simkit.NewSimNet(e)
		n = simkit.StartNetNode(e, sn, simkit.NetNodeOptions{Name: "a@h1", Cookie: "k"})
		rn = simkit.StartNetNode(e, sn, simkit.NetNodeOptions{Name: "b@h2", Cookie: "k"})
		if n == nil || rn == nil {
			return
		}
		defer simkit.StopNode(e, rn, false, 0)
		defer simkit.StopNode(e, n, false, 0)
		if _, err := rn.Network().GetNode("a@h1"); err != nil {
			e.Infra("connect b -> a: " + err.Error())
			return
		}
		e.Probe("remote-client")
	} else {
		n = simkit.StartLocalNode(e, "c19@sim", nil)
		if n == nil {
			return
		}
		defer simkit.StopNode(e, n, false, 0)
	}
	var mu sync.Mutex
	handled := map[int]int{}      // item id -> times handled by a worker
	byPool := map[int]int{}       // high priority items handled by the pool itself
	fromOK := map[int]bool{}      // worker saw the original sender
	senderOf := map[int]gen.PID{} // expected sender
	var workers []gen.PID         // every worker ever started
	crashed := 0
	ringSize := make(chan int64, 8)
	wh := &Hooks{Name: "worker", Env: e, Slow: c.Slow}
	lastWorkerTerm := 0
	sendInv := map[int]int{}
	busy := map[gen.PID]bool{}   // workers inside a slow handler
	killed := map[gen.PID]bool{} // workers Node.Kill was called on (successfully)
	wh.Terminate = func(p *Probe, reason error) {
		mu.Lock()
		// a killed worker is refused by the dispatcher from the moment Kill returned (that step is
		// recorded by the killer); the others are out of reach only when they have terminated
		if !killed[p.PID()] {
			lastWorkerTerm = e.Step()
		}
		mu.Unlock()
	}
	wh.Init = func(p *Probe, args ...any) error {
		mu.Lock()
		workers = append(workers, p.PID())
		mu.Unlock()
		return nil
	}
	see := func(from gen.PID, id int) {
		mu.Lock()
		handled[id]++
		fromOK[id] = senderOf[id] == from
		mu.Unlock()
		e.Logf("worker handles %d", id)
	}
	wh.Message = func(p *Probe, from gen.PID, m any) error {
		switch v := m.(type) {
		case c19Item:
			see(from, v.ID)
			if v.Slow {
				mu.Lock()
				busy[p.PID()] = true
				mu.Unlock()
				e.Probe("worker-busy")
				e.Sleep(300 * time.Millisecond)
				mu.Lock()
				delete(busy, p.PID())
				mu.Unlock()
			}
		case string:
			if v == "panic" {
				panic("injected worker panic")
			}
		}
		return nil
	}
	wh.Call = func(p *Probe, from gen.PID, ref gen.Ref, req any) (any, error) {
		if v, ok := req.(c19Item); ok {
			see(from, v.ID)
			if v.Die {
				// the worker answers this request and leaves: whatever else is queued at it is lost
				// with it (counted like a crash), this request has been answered
				mu.Lock()
				crashed++
				if s := e.Step(); s > lastWorkerTerm {
					lastWorkerTerm = s
				}
				mu.Unlock()
				e.Probe("worker-crashed")
				return v.ID + 1000000, gen.TerminateReasonNormal
			}
			return v.ID + 1000000, nil
		}
		return nil, nil
	}
	ph := &Hooks{Name: "pool", Env: e}
	ph.PoolInit = func(p *ProbePool, args ...any) (act.PoolOptions, error) {
		return act.PoolOptions{PoolSize: int64(c.Size), WorkerMailboxSize: int64(c.Mailbox), WorkerFactory: ProbeFactory(wh)}, nil
	}
	expectedRing := int64(c.Size)
	ph.PoolMessage = func(p *ProbePool, from gen.PID, m any) error {
		switch v := m.(type) {
		case c19Item:
			mu.Lock()
			byPool[v.ID]++
			mu.Unlock()
		case c19Ctl:
			switch v.Do {
			case "add":
				if _, err := p.AddWorkers(v.N); err == nil {
					mu.Lock()
					expectedRing += int64(v.N)
					mu.Unlock()
					e.Probe("ring-resized")
				}
			case "remove":
				mu.Lock()
				can := expectedRing-int64(v.N) >= 1
				mu.Unlock()
				if can {
					if _, err := p.RemoveWorkers(v.N); err == nil {
						mu.Lock()
						expectedRing -= int64(v.N)
						// a removed worker is told to exit: whatever is queued at it dies with it
						crashed += v.N
						mu.Unlock()
						e.Probe("ring-resized")
					}
				}
			case "size":
				sz, _ := p.AddWorkers(0)
				ringSize <- sz
			}
		}
		return nil
	}
	poolPID, err := n.SpawnRegister("pool", ProbePoolFactory(ph), gen.ProcessOptions{})
	if err != nil {
		e.Fail("C19/unexpected-failure", "pool did not start: %v", err)
		return
	}
	e.Settle(time.Millisecond)
	sent := map[int]string{} // id -> kind, accepted sends
	callRes := map[int]any{}
	callErr := map[int]error{}
	for ci, ops := range c.Clients {
		ci, ops := ci, ops
		who := fmt.Sprintf("cl%d", ci)
		h := &Hooks{Name: who, Env: e}
		done := make(chan struct{})
		h.Message = func(p *Probe, from gen.PID, m any) error {
			if m != "go" {
				return nil
			}
			defer close(done)
			for j, op := range ops {
				id := (ci+1)*100 + j
				switch op.Kind {
				case "send", "slow":
					mu.Lock()
					senderOf[id] = p.PID()
					sendInv[id] = e.Step()
					mu.Unlock()
					if err := p.Send(poolPID, c19Item{ID: id, Slow: op.Kind == "slow"}); err == nil {
						mu.Lock()
						sent[id] = "send"
						mu.Unlock()
					}
				case "call", "calldie":
					mu.Lock()
					senderOf[id] = p.PID()
					sendInv[id] = e.Step()
					sent[id] = "call"
					mu.Unlock()
					v, err := p.CallWithTimeout(poolPID, c19Item{ID: id, Die: op.Kind == "calldie"}, 2)
					mu.Lock()
					callRes[id], callErr[id] = v, err
					mu.Unlock()
					e.Logf("%s call %d -> %v %v", who, id, v, err)
				case "high":
					if err := p.SendWithPriority(poolPID, c19Item{ID: id}, gen.MessagePriorityHigh); err == nil {
						mu.Lock()
						sent[id] = "high"
						mu.Unlock()
					}
				case "killworker", "panicworker":
					mu.Lock()
					var target gen.PID
					if len(workers) > 0 {
						target = workers[(id*7)%len(workers)]
					}
					if op.Kind == "killworker" && id%3 != 0 {
						// prefer a worker that is inside a handler right now
						for _, w := range workers {
							if busy[w] {
								target = w
								break
							}
						}
					}
					mu.Unlock()
					if op.Kind == "killworker" {
						if n.Kill(target) == nil {
							mu.Lock()
							crashed++
							killed[target] = true
							if busy[target] {
								e.Probe("busy-worker-killed")
							}
							if s := e.Step(); s > lastWorkerTerm {
								lastWorkerTerm = s
							}
							mu.Unlock()
							e.Probe("worker-crashed")
						}
					} else if n.SendWithPriority(target, "panic", gen.MessagePriorityMax) == nil {
						mu.Lock()
						crashed++
						mu.Unlock()
						e.Probe("worker-crashed")
					}
				case "add", "remove":
					p.SendWithPriority(poolPID, c19Ctl{Do: op.Kind, N: op.N}, gen.MessagePriorityHigh)
				}
			}
			return nil
		}
		home := n
		if c.RemoteLast && ci == len(c.Clients)-1 {
			home = rn
		}
		pid, err := home.Spawn(ProbeFactory(h), gen.ProcessOptions{})
		if err != nil {
			e.Infra("spawn client: " + err.Error())
			return
		}
		e.Go(who+"-kick", func() {
			home.Send(pid, "go")
			e.WaitChan(done, 10*time.Minute)
		})
	}
	if !e.WaitClients(20 * time.Minute) {
		e.Fail("C19/client-stuck", "a client did not finish")
		return
	}
	e.Settle(10 * time.Second)
	if e.Failed() {
		return
	}
	// pool statistics
	var unhandled, restarts int
	ih := &Hooks{Name: "inspector", Env: e}
	insp := make(chan map[string]string, 1)
	ih.Message = func(p *Probe, from gen.PID, m any) error {
		r, err := p.Inspect(poolPID)
		if err != nil {
			r = nil
		}
		insp <- r
		return nil
	}
	ipid, _ := n.Spawn(ProbeFactory(ih), gen.ProcessOptions{})
	n.Send(ipid, "inspect")
	e.Settle(6 * time.Second)
	select {
	case r := <-insp:
		if r == nil {
			e.Fail("C19/pool-gone", "the pool process does not answer an inspect request at quiescence")
			return
		}
		unhandled, _ = strconv.Atoi(r["messages_unhandled"])
		restarts, _ = strconv.Atoi(r["worker_restarts"])
	default:
		e.Fail("C19/pool-gone", "the pool process did not answer an inspect request within 6 simulated seconds")
		return
	}
	if unhandled > 0 {
		e.Probe("all-workers-full")
	}
	if restarts > 0 {
		e.Probe("dead-worker-replaced")
	}
	mu.Lock()
	defer mu.Unlock()
	missing, lateMissing := 0, 0
	nItems := 0
	for id, kind := range sent {
		switch kind {
		case "high":
			if byPool[id] != 1 || handled[id] != 0 {
				e.Fail("C19/high-priority-dispatch", "High-priority item %d was handled %d times by the pool process and %d times by workers", id, byPool[id], handled[id])
				return
			}
		default:
			nItems++
			if handled[id] > 1 {
				e.Fail("C19/handled-twice", "%s %d was handled by workers %d times", kind, id, handled[id])
				return
			}
			if byPool[id] != 0 {
				e.Fail("C19/not-forwarded", "normal-priority %s %d was handled by the pool process itself", kind, id)
				return
			}
			if handled[id] == 0 {
				missing++
				if sendInv[id] > lastWorkerTerm {
					lateMissing++
				}
			} else if !fromOK[id] {
				e.Fail("C19/sender-not-preserved", "%s %d reached a worker with a sender different from the original one", kind, id)
				return
			}
			if kind == "call" && handled[id] == 1 && crashed == 0 {
				if callErr[id] != nil || callRes[id] != id+1000000 {
					e.Fail("C19/reply-lost", "call %d was handled by a worker but the caller got (%v, %v)", id, callRes[id], callErr[id])
					return
				}
			}
			if kind == "call" && callErr[id] == nil && callRes[id] != id+1000000 {
				e.Fail("C19/wrong-reply", "call %d returned %v", id, callRes[id])
				return
			}
		}
	}
	if c.Mailbox > 0 && nItems > c.Mailbox {
		e.Probe("worker-mailbox-full-skipped")
	}
	if c.Mailbox == 0 && unhandled > 0 {
		// "unhandled" is the pool's word for "every worker's mailbox was full": with unbounded worker
		// mailboxes there is always room, and a dead worker found at dispatch is to be replaced
		e.Fail("C19/dropped-with-room", "the pool gave up on %d item(s) (messages_unhandled) although the worker mailboxes are unbounded (size %d, %d workers crashed or removed)", unhandled, c.Size, crashed)
		return
	}
	if crashed == 0 {
		if missing != unhandled {
			e.Fail("C19/lost-without-crash", "no worker crashed, %d normal-priority items were never handled but the pool counted %d as unhandled (size %d, worker mailbox %d)", missing, unhandled, c.Size, c.Mailbox)
			return
		}
		if c.Mailbox == 0 && missing > 0 {
			e.Fail("C19/lost-without-crash", "workers have unbounded mailboxes and none crashed, yet %d items were never handled", missing)
			return
		}
	} else {
		if lateMissing > unhandled {
			e.Fail("C19/lost-after-crash", "%d items sent after the last Kill of a worker had returned and the last crashed worker had finished terminating were never handled (pool counted %d unhandled): a dead worker found at dispatch must be replaced and the message handed to the replacement", lateMissing, unhandled)
			return
		}
		per := c.Mailbox + 1
		if c.Mailbox == 0 {
			per = nItems
		}
		if missing-unhandled > crashed*per {
			e.Fail("C19/lost-too-many", "%d items missing (pool counted %d unhandled) but %d crashed workers can account for at most %d", missing, unhandled, crashed, crashed*per)
			return
		}
	}
	// ring size: push traffic over any dead worker, then ask the pool
	exp := expectedRing
	mu.Unlock()
	for i := 0; i < 3*int(exp)+3; i++ {
		n.Send(poolPID, c19Item{ID: 900000 + i})
	}
	e.Settle(2 * time.Second)
	n.SendWithPriority(poolPID, c19Ctl{Do: "size"}, gen.MessagePriorityHigh)
	e.Settle(time.Second)
	mu.Lock()
	select {
	case sz := <-ringSize:
		if sz != exp {
			e.Fail("C19/ring-size", "after traffic passed over every slot the ring holds %d workers, expected %d (configured %d, crashes %d)", sz, exp, c.Size, crashed)
		}
	default:
		e.Fail("C19/pool-gone", "the pool process did not report its ring size")
	}
}
