package props

import (
	"errors"
	"fmt"
	"sync"
	"time"

	"ergo.services/ergo/gen"

	"verifsim/simkit"
)

// C17 Application lifecycle and start modes.

type C17Action struct {
	Kind   string `json:"kind"`   // exit | kill | stop | stopforce | stoptimeout | unload | start
	Member int    `json:"member"` // exit/kill
	Reason string `json:"reason"` // exit: normal | shutdown | error
}

type C17Round struct {
	Mode      string        `json:"mode"`        // temporary | transient | permanent | spec
	FailAt    int           `json:"fail_at"`     // >=0: that member's Init fails (failed start)
	DieAtOnce int           `json:"die_at_once"` // >=0: that member terminates right after its start
	Clients   [][]C17Action `json:"clients"`     // concurrent clients
}

type C17Case struct {
	Members  int        `json:"members"`
	SpecMode string     `json:"spec_mode"`
	WithDep  bool       `json:"with_dep"` // a second application "dep" the main one depends on
	Rounds   []C17Round `json:"rounds"`
	// RemoteStart: the application is started by another node (RemoteNode.ApplicationStart*) over the
	// simulated network; everything else is judged as for a local start
	RemoteStart bool `json:"remote_start,omitempty"`
	// Dep0Running (with WithDep): the main application has a further dependency "dep0", listed first,
	// that is already running when the main application is started
	Dep0Running bool `json:"dep0_running,omitempty"`
	// TrapMember (>= 0): that member of the main application traps exit signals (it keeps handling
	// them as messages and ignores them); the shutdown sent by the application must still end it
	TrapMember int `json:"trap_member"`
}

type c17 struct{}

func init() { Register(c17{}) }

func (c17) ID() string    { return "C17" }
func (c17) Level() string { return "exploration" }
func (c17) NewCase() any  { return &C17Case{} }
func (c17) Nontrivial() []string {
	return []string{"stopped-by-member-termination", "stopped-by-api", "kept-running", "failed-start", "concurrent-actions", "restarted-after-stop"}
}
func (c17) Rule() string {
	return "case = an application with 1-4 members (optionally depending on a second application), started 1-3 times in a drawn mode (spec mode or explicit Temporary/Transient/Permanent), optionally with a member whose Init fails " +
		"or that dies right after its start; per round 1-2 concurrent clients issue member exits (normal/shutdown/error), Node.Kill, ApplicationStop / StopForce / StopWithTimeout / Unload / Start calls. " +
		"Reference lifecycle model: dependencies before dependents, members in spec order, Start callback once per successful start, failed start leaves nothing running, stop condition per mode, " +
		"on stop all members gone + Terminate exactly once with a reason belonging to this stop + state loaded + startable again, ApplicationStop returns nil only after the last member has terminated. " +
		"Non-trivial = the round ended in a stop (by rule or by API), stayed running with survivors, or was a failed start; distinct = distinct (schedule, history) hashes."
}
func (c17) Components() ([]string, []string) {
	return []string{"node/application.go (start, stop, terminate)", "node Application* API", "process spawn / unregisterProcess membership hook"},
		[]string{"network disabled unless the application is started by a remote node (then TCP = simkit.SimNet, static registrar)", "default logger disabled"}
}

func (c17) Generate(r *simkit.Rand, tier string) any {
	c := &C17Case{Members: r.Range(1, 4), SpecMode: simkit.Pick(r, "temporary", "transient", "permanent"), WithDep: r.Chance(0.3), RemoteStart: r.Chance(0.25), TrapMember: -1}
	c.Dep0Running = c.WithDep && r.Bool()
	if r.Chance(0.3) {
		c.TrapMember = r.Intn(c.Members)
	}
	nr := r.Range(1, 3)
	for i := 0; i < nr; i++ {
		rd := C17Round{Mode: simkit.Pick(r, "spec", "temporary", "transient", "permanent"), FailAt: -1, DieAtOnce: -1}
		switch r.Intn(8) {
		case 0:
			rd.FailAt = r.Intn(c.Members)
		case 1:
			// only the last member: what should happen to members that are yet to be started when an
			// earlier one has already died is not specified, so that situation is not generated
			rd.DieAtOnce = c.Members - 1
		}
		used := map[int]bool{}
		if rd.DieAtOnce >= 0 {
			used[rd.DieAtOnce] = true
		}
		for k, nc := 0, r.Range(1, 2); k < nc; k++ {
			var acts []C17Action
			for j, na := 0, r.Range(0, 3); j < na; j++ {
				a := C17Action{Member: r.Intn(c.Members), Reason: simkit.Pick(r, "normal", "shutdown", "error")}
				a.Kind = simkit.Pick(r, "exit", "exit", "exit", "kill", "stop", "stopforce", "stoptimeout", "busy", "exit", "kill", "stop", "unload")
				if a.Kind == "exit" || a.Kind == "kill" {
					// one termination cause per member and round, so that the cause of each member's exit is known
					if used[a.Member] {
						continue
					}
					used[a.Member] = true
				}
				acts = append(acts, a)
			}
			rd.Clients = append(rd.Clients, acts)
		}
		c.Rounds = append(c.Rounds, rd)
	}
	return c
}

func (c17) Shrink(cc any) []any {
	c := cc.(*C17Case)
	var out []any
	for i := range c.Rounds {
		if len(c.Rounds) > 1 {
			n := cloneJSON(c)
			n.Rounds = dropAt(n.Rounds, i)
			out = append(out, n)
		}
	}
	for i := range c.Rounds {
		for k := range c.Rounds[i].Clients {
			for j := range c.Rounds[i].Clients[k] {
				n := cloneJSON(c)
				n.Rounds[i].Clients[k] = dropAt(n.Rounds[i].Clients[k], j)
				out = append(out, n)
			}
		}
	}
	if c.WithDep {
		n := cloneJSON(c)
		n.WithDep = false
		out = append(out, n)
	}
	return out
}

type c17App struct {
	name    gen.Atom
	spec    gen.ApplicationSpec
	mu      sync.Mutex
	starts  int
	terms   []error
	termAt  []int
	startAt []int
}

func (a *c17App) Load(node gen.Node, args ...any) (gen.ApplicationSpec, error) { return a.spec, nil }
func (a *c17App) Start(mode gen.ApplicationMode) {
	a.mu.Lock()
	a.starts++
	a.mu.Unlock()
}
func (a *c17App) Terminate(reason error) {
	a.mu.Lock()
	a.terms = append(a.terms, reason)
	a.mu.Unlock()
}

func appMode(m string) gen.ApplicationMode {
	switch m {
	case "transient":
		return gen.ApplicationModeTransient
	case "permanent":
		return gen.ApplicationModePermanent
	}
	return gen.ApplicationModeTemporary
}

func (c17) Run(e *simkit.Env, cc any) {
	c := cc.(*C17Case)
	var n gen.Node
	var starter gen.RemoteNode
	if c.RemoteStart {
		sn := simkit.NewSimNet(e)
		n = simkit.StartNetNode(e, sn, simkit.NetNodeOptions{Name: "a@h1", Cookie: "k"})
		b := simkit.StartNetNode(e, sn, simkit.NetNodeOptions{Name: "b@h2", Cookie: "k"})
		if n == nil || b == nil {
			return
		}
		defer simkit.StopNode(e, b, false, 0)
		defer simkit.StopNode(e, n, false, 0)
		if err := n.Network().EnableApplicationStart("main"); err != nil {
			e.Infra("EnableApplicationStart: " + err.Error())
			return
		}
		rn, err := b.Network().GetNode("a@h1")
		if err != nil {
			e.Infra("connect b -> a: " + err.Error())
			return
		}
		starter = rn
		e.Probe("started-by-a-remote-node")
	} else {
		n = simkit.StartLocalNode(e, "c17@sim", nil)
		if n == nil {
			return
		}
		defer simkit.StopNode(e, n, false, 0)
	}

	type memberRec struct {
		idx, round         int
		pid                gen.PID
		initStep, termStep int
		terminated         bool
		app                string
	}
	var mu sync.Mutex
	var recs []*memberRec
	round := 0
	failAt, dieAtOnce := -1, -1
	memberFactory := func(app string, idx int) gen.ProcessFactory {
		h := &Hooks{Name: fmt.Sprintf("%s-m%d", app, idx), Env: e, Trap: app == "main" && idx == c.TrapMember}
		h.Init = func(p *Probe, args ...any) error {
			if app == "main" && idx == failAt {
				return fmt.Errorf("init-fails")
			}
			mu.Lock()
			recs = append(recs, &memberRec{idx: idx, round: round, pid: p.PID(), initStep: e.Step(), app: app})
			mu.Unlock()
			e.Logf("%s member %d starts", app, idx)
			if app == "main" && idx == dieAtOnce {
				p.Send(p.PID(), "error")
			}
			return nil
		}
		h.Message = func(p *Probe, from gen.PID, m any) error {
			if s, ok := m.(string); ok {
				switch s {
				case "busy":
					// stays inside the handler for two simulated seconds: exit signals and Kill
					// take effect only when it returns
					e.Probe("member-busy")
					e.Sleep(2 * time.Second)
					return nil
				case "normal":
					return gen.TerminateReasonNormal
				case "shutdown":
					return gen.TerminateReasonShutdown
				case "error":
					return fmt.Errorf("boom-r%d-m%d", round, idx)
				}
			}
			return nil
		}
		h.Terminate = func(p *Probe, reason error) {
			mu.Lock()
			for _, r := range recs {
				if r.pid == p.PID() {
					r.terminated = true
					r.termStep = e.Step()
				}
			}
			mu.Unlock()
			e.Logf("%s member %d terminated: %s", app, idx, reasonKey(reason))
		}
		return ProbeFactory(h)
	}
	mainApp := &c17App{name: "main"}
	mainApp.spec = gen.ApplicationSpec{Name: "main", Mode: appMode(c.SpecMode)}
	for i := 0; i < c.Members; i++ {
		mainApp.spec.Group = append(mainApp.spec.Group, gen.ApplicationMemberSpec{Name: gen.Atom(fmt.Sprintf("main_m%d", i)), Factory: memberFactory("main", i)})
	}
	var depApp *c17App
	if c.WithDep {
		depApp = &c17App{name: "dep"}
		depApp.spec = gen.ApplicationSpec{Name: "dep", Mode: gen.ApplicationModeTemporary,
			Group: []gen.ApplicationMemberSpec{{Name: "dep_m0", Factory: memberFactory("dep", 0)}, {Name: "dep_m1", Factory: memberFactory("dep", 1)}}}
		mainApp.spec.Depends.Applications = []gen.Atom{"dep"}
		if _, err := n.ApplicationLoad(depApp); err != nil {
			e.Fail("C17/unexpected-failure", "ApplicationLoad(dep): %v", err)
			return
		}
		if c.Dep0Running {
			dep0 := &c17App{name: "dep0"}
			dep0.spec = gen.ApplicationSpec{Name: "dep0", Mode: gen.ApplicationModeTemporary,
				Group: []gen.ApplicationMemberSpec{{Name: "dep0_m0", Factory: memberFactory("dep0", 0)}}}
			mainApp.spec.Depends.Applications = []gen.Atom{"dep0", "dep"}
			if _, err := n.ApplicationLoad(dep0); err != nil {
				e.Fail("C17/unexpected-failure", "ApplicationLoad(dep0): %v", err)
				return
			}
			if err := n.ApplicationStart("dep0", gen.ApplicationOptions{}); err != nil {
				e.Fail("C17/unexpected-failure", "ApplicationStart(dep0): %v", err)
				return
			}
			e.Probe("a-dependency-already-running")
		}
	}
	if _, err := n.ApplicationLoad(mainApp); err != nil {
		e.Fail("C17/unexpected-failure", "ApplicationLoad(main): %v", err)
		return
	}
	loaded := true

	liveMembers := func(app string, rd int) []*memberRec {
		mu.Lock()
		rs := append([]*memberRec(nil), recs...)
		mu.Unlock()
		var out []*memberRec
		for _, r := range rs {
			if r.app == app && r.round == rd {
				if _, err := n.ProcessInfo(r.pid); err == nil {
					out = append(out, r)
				}
			}
		}
		return out
	}
	state := func() gen.ApplicationState {
		info, err := n.ApplicationInfo("main")
		if err != nil {
			return 0
		}
		return info.State
	}

	for ri, rd := range c.Rounds {
		if !loaded {
			break
		}
		round = ri
		failAt, dieAtOnce = rd.FailAt, rd.DieAtOnce
		mode := rd.Mode
		if mode == "spec" {
			mode = c.SpecMode
		}
		mainApp.mu.Lock()
		startsBefore, termsBefore := mainApp.starts, len(mainApp.terms)
		mainApp.mu.Unlock()
		var err error
		type appStarter interface {
			ApplicationStart(name gen.Atom, options gen.ApplicationOptions) error
			ApplicationStartTemporary(name gen.Atom, options gen.ApplicationOptions) error
			ApplicationStartTransient(name gen.Atom, options gen.ApplicationOptions) error
			ApplicationStartPermanent(name gen.Atom, options gen.ApplicationOptions) error
		}
		var starterAPI appStarter = n
		if starter != nil {
			starterAPI = starter
		}
		switch rd.Mode {
		case "spec":
			err = starterAPI.ApplicationStart("main", gen.ApplicationOptions{})
		case "temporary":
			err = starterAPI.ApplicationStartTemporary("main", gen.ApplicationOptions{})
		case "transient":
			err = starterAPI.ApplicationStartTransient("main", gen.ApplicationOptions{})
		case "permanent":
			err = starterAPI.ApplicationStartPermanent("main", gen.ApplicationOptions{})
		}
		e.Logf("round %d start mode=%s -> %v", ri, mode, err)
		if ri > 0 && err == nil {
			e.Probe("restarted-after-stop")
		}
		if rd.FailAt >= 0 {
			e.Settle(time.Second)
			if err == nil {
				e.Fail("C17/failed-start-reported-success", "round %d: member %d fails in Init but ApplicationStart returned nil", ri, rd.FailAt)
				return
			}
			if lm := liveMembers("main", ri); len(lm) > 0 {
				e.Fail("C17/failed-start-leaves-members", "round %d: start failed (%v) but member %d is still running", ri, err, lm[0].idx)
				return
			}
			if st := state(); st != gen.ApplicationStateLoaded {
				e.Fail("C17/failed-start-state", "round %d: start failed but the application state is %s", ri, st)
				return
			}
			mainApp.mu.Lock()
			s := mainApp.starts
			mainApp.mu.Unlock()
			if s != startsBefore {
				e.Fail("C17/start-callback", "round %d: start failed but the Start callback ran", ri)
				return
			}
			e.Probe("failed-start")
			continue
		}
		if err != nil {
			e.Fail("C17/start-refused", "round %d: starting the loaded, stopped application failed: %v (state %s)", ri, err, state())
			return
		}
		// started invariants
		mu.Lock()
		var mine, deps []*memberRec
		for _, r := range recs {
			if r.round == ri && r.app == "main" {
				mine = append(mine, r)
			}
			if r.app == "dep" {
				deps = append(deps, r)
			}
		}
		mu.Unlock()
		if len(mine) != c.Members {
			e.Fail("C17/members-started", "round %d: %d of %d members were started", ri, len(mine), c.Members)
			return
		}
		for i := 1; i < len(mine); i++ {
			if mine[i].idx < mine[i-1].idx {
				e.Fail("C17/member-order", "round %d: member %d started after member %d", ri, mine[i].idx, mine[i-1].idx)
				return
			}
		}
		if c.WithDep && ri == 0 {
			if len(deps) != 2 {
				e.Fail("C17/dependency-not-started", "the dependency application has %d running members when the dependent was started", len(deps))
				return
			}
			for _, d := range deps {
				if d.initStep > mine[0].initStep {
					e.Fail("C17/dependency-order", "a member of the dependency started after the first member of the dependent application")
					return
				}
			}
		}
		if rd.DieAtOnce >= 0 {
			// the application may already have stopped again
		} else if err := n.ApplicationUnload("main"); !errors.Is(err, gen.ErrApplicationRunning) {
			e.Fail("C17/unload-while-running", "round %d: ApplicationUnload of the running application returned %v", ri, err)
			return
		} else if err := n.ApplicationStart("main", gen.ApplicationOptions{}); !errors.Is(err, gen.ErrApplicationRunning) && !errors.Is(err, gen.ErrApplicationState) {
			e.Fail("C17/double-start", "round %d: starting the running application again returned %v", ri, err)
			return
		}
		mainApp.mu.Lock()
		s := mainApp.starts
		mainApp.mu.Unlock()
		if s != startsBefore+1 {
			e.Fail("C17/start-callback", "round %d: Start callback ran %d times for one successful start", ri, s-startsBefore)
			return
		}

		// actions
		type stopRes struct {
			kind string
			err  error
			ret  int
			inv  int
			took time.Duration
		}
		var results []stopRes
		var exits []string // reasons of member terminations caused by actions
		exited := map[int]bool{}
		anyStop, anyForce, unloaded := false, false, false
		if rd.DieAtOnce >= 0 {
			exits = append(exits, fmt.Sprintf("boom-r%d-m%d", ri, rd.DieAtOnce))
			exited[rd.DieAtOnce] = true
		}
		nacts := 0
		for ci, acts := range rd.Clients {
			ci, acts := ci, acts
			nacts += len(acts)
			e.Go(fmt.Sprintf("r%dc%d", ri, ci), func() {
				for _, a := range acts {
					inv := e.Step()
					t0 := e.Now()
					switch a.Kind {
					case "busy":
						for _, m := range mine {
							if m.idx == a.Member {
								n.Send(m.pid, "busy")
							}
						}
						e.Logf("action busy member %d", a.Member)
					case "exit", "kill":
						var target *memberRec
						for _, m := range mine {
							if m.idx == a.Member {
								target = m
							}
						}
						var err error
						reason := a.Reason
						if a.Kind == "kill" {
							err = n.Kill(target.pid)
							reason = "kill"
						} else {
							err = n.Send(target.pid, a.Reason)
							if a.Reason == "error" {
								reason = fmt.Sprintf("boom-r%d-m%d", ri, a.Member)
							}
						}
						if err == nil {
							mu.Lock()
							exits = append(exits, reason)
							exited[a.Member] = true
							mu.Unlock()
						}
						e.Logf("action %s member %d (%s) -> %v", a.Kind, a.Member, reason, err)
					case "stop", "stopforce", "stoptimeout":
						var err error
						switch a.Kind {
						case "stop":
							err = n.ApplicationStop("main")
						case "stopforce":
							err = n.ApplicationStopForce("main")
						default:
							err = n.ApplicationStopWithTimeout("main", time.Second)
						}
						if err == nil {
							for _, m := range mine {
								if _, perr := n.ProcessInfo(m.pid); perr == nil {
									e.Fail("C17/stop-returned-early", "round %d: %s returned nil while member %d was still registered and running", ri, a.Kind, m.idx)
									return
								}
							}
						}
						mu.Lock()
						results = append(results, stopRes{a.Kind, err, e.Step(), inv, e.Now() - t0})
						anyStop = true
						if a.Kind == "stopforce" {
							anyForce = true
						}
						mu.Unlock()
						e.Logf("action %s -> %v", a.Kind, err)
					case "unload":
						err := n.ApplicationUnload("main")
						if err == nil {
							mu.Lock()
							unloaded = true
							mu.Unlock()
							// unload succeeds only on a stopped application: nobody starts members
							// meanwhile, so none may be registered the moment it has returned
							if lm := liveMembers("main", ri); len(lm) > 0 {
								e.Fail("C17/unloaded-while-members-run", "round %d: ApplicationUnload returned nil while member %d was still registered", ri, lm[0].idx)
								return
							}
						}
						e.Logf("action unload -> %v", err)
					case "start":
						err := n.ApplicationStart("main", gen.ApplicationOptions{})
						e.Logf("action start -> %v", err)
						if err == nil {
							// a start that succeeds in the middle of a round begins a new incarnation; end the round here
							e.Infra("unexpected: concurrent start succeeded; case not judged")
						}
					}
				}
			})
		}
		if nacts > 1 && len(rd.Clients) > 1 {
			e.Probe("concurrent-actions")
		}
		if !e.WaitClients(5 * time.Minute) {
			e.Fail("C17/api-call-hangs", "round %d: an Application* call did not return within 5 simulated minutes", ri)
			return
		}
		e.Settle(10 * time.Second)
		if e.Failed() {
			return
		}
		mu.Lock()
		exitsCopy := append([]string(nil), exits...)
		nExited := len(exited)
		mu.Unlock()

		// expected outcome
		abn := false
		for _, r := range exitsCopy {
			if abnormal(r) {
				abn = true
			}
		}
		expectStopped := anyStop
		switch mode {
		case "permanent":
			expectStopped = expectStopped || len(exitsCopy) > 0
		case "transient":
			expectStopped = expectStopped || abn || nExited == c.Members
		default:
			expectStopped = expectStopped || nExited == c.Members
		}
		live := liveMembers("main", ri)
		st := state()
		if unloaded {
			// unload succeeds only on a stopped application
			if len(live) > 0 {
				e.Fail("C17/unloaded-while-members-run", "round %d: ApplicationUnload succeeded while member %d was still running", ri, live[0].idx)
				return
			}
			loaded = false
		}
		mainApp.mu.Lock()
		terms := append([]error(nil), mainApp.terms[termsBefore:]...)
		mainApp.mu.Unlock()
		if expectStopped {
			if len(live) > 0 {
				e.Fail("C17/member-survives-stop", "round %d (%s): the application must have stopped (exits %v, stop call %v) but member %d is still running", ri, mode, exitsCopy, anyStop, live[0].idx)
				return
			}
			if !unloaded && st != gen.ApplicationStateLoaded {
				e.Fail("C17/state-after-stop", "round %d (%s): every member has terminated (exits %v, stop call %v) but the application state is %s", ri, mode, exitsCopy, anyStop, st)
				return
			}
			if len(terms) != 1 {
				e.Fail("C17/terminate-callback-count", "round %d (%s): the application stopped but its Terminate callback ran %d times", ri, mode, len(terms))
				return
			}
			allowed := map[string]bool{}
			if anyStop {
				allowed["shutdown"] = true
				if anyForce {
					allowed["kill"] = true
				}
			}
			for _, r := range exitsCopy {
				if mode == "permanent" || (mode == "transient" && abnormal(r)) || mode == "temporary" || (mode == "transient" && !abn) {
					allowed[r] = true
				}
			}
			if mode != "permanent" && !(mode == "transient" && abn) {
				allowed["normal"] = true
			}
			got := reasonKey(terms[0])
			if !allowed[got] {
				e.Fail("C17/terminate-reason", "round %d (%s): Terminate callback got reason %q; this stop was caused by member exits %v / stop call=%v force=%v (allowed %v)", ri, mode, got, exitsCopy, anyStop, anyForce, keysOf(allowed))
				return
			}
			if anyStop {
				e.Probe("stopped-by-api")
			} else {
				e.Probe("stopped-by-member-termination")
			}
		} else {
			if len(live) != c.Members-nExited {
				e.Fail("C17/members-lost", "round %d (%s): %d members exited (%v) and the application keeps running, but %d of %d members are alive", ri, mode, nExited, exitsCopy, len(live), c.Members)
				return
			}
			if st != gen.ApplicationStateRunning {
				e.Fail("C17/state-while-running", "round %d (%s): nothing required a stop (exits %v) but the application state is %s", ri, mode, exitsCopy, st)
				return
			}
			if len(terms) != 0 {
				e.Fail("C17/terminate-callback-count", "round %d (%s): the application keeps running but its Terminate callback ran", ri, mode)
				return
			}
			e.Probe("kept-running")
		}
		// stop results
		mu.Lock()
		rs := append([]stopRes(nil), results...)
		rr := append([]*memberRec(nil), mine...)
		mu.Unlock()
		nGraceful := 0
		for _, r := range rs {
			if r.kind != "stopforce" {
				nGraceful++
			}
		}
		for _, r := range rs {
			if r.err == nil {
				for _, m := range rr {
					if !m.terminated || m.termStep > r.ret {
						// the member's Terminate callback runs right after it left the group; allow that tail
						if _, err := n.ProcessInfo(m.pid); err == nil {
							e.Fail("C17/stop-returned-early", "round %d: %s returned nil but member %d had not terminated", ri, r.kind, m.idx)
							return
						}
					}
				}
			}
			if r.err != nil && !errors.Is(r.err, gen.ErrApplicationStopping) && !errors.Is(r.err, gen.ErrApplicationState) && !(unloaded && errors.Is(r.err, gen.ErrApplicationUnknown)) {
				e.Fail("C17/stop-error", "round %d: %s returned %v", ri, r.kind, r.err)
				return
			}
			if r.err != nil && len(rs) == 1 && r.kind == "stop" && len(exitsCopy) == 0 {
				e.Fail("C17/stop-not-confirmed", "round %d: the only ApplicationStop call returned %v after %v although every member terminates at once", ri, r.err, r.took)
				return
			}
		}
		if !expectStopped {
			// end the round: stop it for the next one
			if err := n.ApplicationStop("main"); err != nil {
				e.Fail("C17/stop-not-confirmed", "round %d: ApplicationStop at the end of the round returned %v", ri, err)
				return
			}
			e.Settle(time.Second)
			if lm := liveMembers("main", ri); len(lm) > 0 {
				e.Fail("C17/member-survives-stop", "round %d: ApplicationStop returned nil but member %d is alive", ri, lm[0].idx)
				return
			}
		}
	}
}

func keysOf(m map[string]bool) []string {
	var out []string
	for k := range m {
		out = append(out, k)
	}
	sortStrings(out)
	return out
}
