package props

import (
	"fmt"
	"sync"
	"time"

	"ergo.services/ergo/act"
	"ergo.services/ergo/gen"

	"verifsim/simkit"
)

// C10 No orphans: supervisors, applications and the node take their processes down.

type C10Node struct {
	Kind     string    `json:"kind"` // sup | pool | actor
	Type     string    `json:"type,omitempty"`
	Strategy string    `json:"strategy,omitempty"`
	Size     int       `json:"size,omitempty"`
	Children []C10Node `json:"children,omitempty"`
	Trap     bool      `json:"trap,omitempty"`      // leaf actor / pool workers trap exit signals
	FailInit int       `json:"fail_init,omitempty"` // pool: the k-th worker (1-based) fails in Init
}

type C10Fault struct {
	Target int    `json:"target"` // index into the processes recorded so far (modulo)
	How    string `json:"how"`    // kill | error | panic | normal | shutdown | busy (handler takes 2 simulated seconds) | disable (supervisor disables its first child)
	Phase  string `json:"phase"`  // startup | steady
}

type C10Case struct {
	Root   C10Node    `json:"root"`
	InApp  bool       `json:"in_app"`
	Faults []C10Fault `json:"faults"`
	Final  string     `json:"final"` // none | appstop | appstopforce | nodestop | killroot
	// Rush: the final action follows the steady-state faults at once (it lands in the restart or
	// shutdown they started) instead of after the tree has settled
	Rush bool `json:"rush,omitempty"`
	// StopSpawns (nodestop only): this many processes outside the tree each spawn one more process
	// (plain Spawn) while Node.Stop is running
	StopSpawns int `json:"stop_spawns,omitempty"`
}

type c10 struct{}

func init() { Register(c10{}) }

func (c10) ID() string    { return "C10" }
func (c10) Level() string { return "fault_enumeration" }
func (c10) NewCase() any  { return &C10Case{} }
func (c10) Nontrivial() []string {
	return []string{"owner-terminated-with-dependants", "fault-during-startup", "graceful-stop-completed", "restart-wave-in-tree"}
}
func (c10) Rule() string {
	return "case = a supervision tree of depth <= 3 and <= 12 processes built from supervisors (all types and strategies), pools and leaf actors, optionally as the member of an application; " +
		"faults: which recorded process (root, middle supervisor, leaf, pool, worker) x how (Kill, handler error, panic, normal, shutdown) x when (concurrently with start-up, steady state, back to back so that they land in an ongoing restart or shutdown), " +
		"then a final action (none, kill the root, ApplicationStop, ApplicationStopForce, graceful Node.Stop - optionally while 1-3 unrelated processes each spawn another process). Every process records its pid and parent at Init. Oracle at quiescence: a process whose parent is gone is gone; " +
		"after a successful ApplicationStop / Node.Stop nothing recorded under it is alive and the call returned only after the last terminate; a stop call that never returns is a violation. " +
		"Non-trivial = an owner with live dependants terminated, a fault hit the start-up, or a graceful stop completed; distinct = distinct (schedule, history) hashes."
}
func (c10) Components() ([]string, []string) {
	return []string{"act.Supervisor / act.Pool shutdown paths", "node application stop, node stop, Kill, LinkParent/LinkChild fan-out"}, []string{"network disabled", "default logger disabled"}
}

func genC10Node(r *simkit.Rand, depth int, budget *int) C10Node {
	*budget--
	if depth >= 2 || *budget <= 0 {
		return C10Node{Kind: "actor", Trap: r.Chance(0.3)}
	}
	switch r.Intn(6) {
	case 0, 1:
		return C10Node{Kind: "actor", Trap: r.Chance(0.3)}
	case 2:
		sz := r.Range(1, 3)
		*budget -= sz
		nd := C10Node{Kind: "pool", Size: sz, Trap: r.Chance(0.3)}
		if r.Chance(0.15) {
			nd.FailInit = r.Range(1, sz)
		}
		return nd
	}
	n := C10Node{Kind: "sup", Type: simkit.Pick(r, "ofo", "afo", "rfo"), Strategy: simkit.Pick(r, "transient", "temporary", "permanent")}
	for i, k := 0, r.Range(1, 3); i < k && *budget > 0; i++ {
		n.Children = append(n.Children, genC10Node(r, depth+1, budget))
	}
	return n
}

func (c10) Generate(r *simkit.Rand, tier string) any {
	budget := 11
	c := &C10Case{InApp: r.Chance(0.5)}
	c.Root = C10Node{Kind: "sup", Type: simkit.Pick(r, "ofo", "afo", "rfo"), Strategy: simkit.Pick(r, "transient", "temporary", "permanent")}
	for i, k := 0, r.Range(1, 3); i < k; i++ {
		c.Root.Children = append(c.Root.Children, genC10Node(r, 1, &budget))
	}
	nf := r.Range(0, 3)
	if tier == "thorough" {
		nf = r.Range(0, 5)
	}
	for i := 0; i < nf; i++ {
		c.Faults = append(c.Faults, C10Fault{Target: r.Intn(32), How: simkit.Pick(r, "kill", "kill", "error", "panic", "normal", "shutdown"),
			Phase: simkit.Pick(r, "startup", "steady", "steady")})
	}
	if r.Chance(0.35) {
		// a stop request that lands in a restart or in a shutdown in progress: some process is busy
		// (slow to terminate), another one fails, and the final action follows immediately
		c.Rush = true
		var fs []C10Fault
		for i, k := 0, r.Range(1, 2); i < k; i++ {
			fs = append(fs, C10Fault{Target: r.Intn(32), How: "busy", Phase: "steady"})
		}
		fs = append(fs, C10Fault{Target: r.Intn(32), How: simkit.Pick(r, "kill", "error", "panic", "disable", "normal"), Phase: "steady"})
		c.Faults = append(c.Faults, fs...)
	}
	if c.InApp {
		c.Final = simkit.Pick(r, "none", "appstop", "appstop", "appstopforce", "nodestop", "killroot")
	} else {
		c.Final = simkit.Pick(r, "none", "nodestop", "killroot", "killroot")
	}
	if c.Final == "nodestop" && r.Chance(0.4) {
		c.StopSpawns = r.Range(1, 3)
	}
	return c
}

func (c10) Shrink(cc any) []any {
	c := cc.(*C10Case)
	var out []any
	for i := range c.Faults {
		n := cloneJSON(c)
		n.Faults = dropAt(n.Faults, i)
		out = append(out, n)
	}
	for i := range c.Root.Children {
		if len(c.Root.Children) > 1 {
			n := cloneJSON(c)
			n.Root.Children = dropAt(n.Root.Children, i)
			out = append(out, n)
		}
	}
	for i := range c.Root.Children {
		if len(c.Root.Children[i].Children) > 0 {
			n := cloneJSON(c)
			n.Root.Children[i] = C10Node{Kind: "actor"}
			out = append(out, n)
		}
	}
	if c.InApp && c.Final != "appstop" && c.Final != "appstopforce" {
		n := cloneJSON(c)
		n.InApp = false
		out = append(out, n)
	}
	return out
}

type c10Rec struct {
	pid      gen.PID
	parent   gen.PID
	kind     string
	path     string
	termStep int
	term     bool
	at       time.Duration // simulated time at which its Init started
}

type c10App struct{ spec gen.ApplicationSpec }

func (a *c10App) Load(node gen.Node, args ...any) (gen.ApplicationSpec, error) { return a.spec, nil }
func (a *c10App) Start(mode gen.ApplicationMode)                               {}
func (a *c10App) Terminate(reason error)                                       {}

func (c10) Run(e *simkit.Env, cc any) {
	c := cc.(*C10Case)
	n := simkit.StartLocalNode(e, "c10@sim", nil)
	if n == nil {
		return
	}
	stopped := false
	defer func() {
		if !stopped {
			simkit.StopNode(e, n, false, 0)
		}
	}()
	var mu sync.Mutex
	var recs []*c10Rec
	byPID := map[gen.PID]*c10Rec{}
	record := func(p gen.Process, kind, path string) {
		mu.Lock()
		r := &c10Rec{pid: p.PID(), parent: p.Parent(), kind: kind, path: path, at: e.Now()}
		recs = append(recs, r)
		byPID[p.PID()] = r
		mu.Unlock()
		e.Logf("start %s (%s)", path, kind)
	}
	diedDuringParentInit := false
	hitBy := map[gen.PID]string{} // processes a fault was injected into directly
	var aliveFn func(pid gen.PID) bool
	terminated := func(pid gen.PID) {
		mu.Lock()
		var parent *c10Rec
		if r := byPID[pid]; r != nil {
			parent = byPID[r.parent]
		}
		mu.Unlock()
		if parent != nil && !parent.term && parent.at == e.Now() && !aliveFn(parent.pid) {
			// the parent exists but is not registered yet: it is still inside its ProcessInit
			// (which takes no simulated time; a parent that is gone at a later instant has been
			// unregistered and its terminate callback is on its way)
			diedDuringParentInit = true
			e.Logf("%v died while its parent %s was still initialising", pid.ID, parent.path)
		}
		mu.Lock()
		if r := byPID[pid]; r != nil {
			r.term = true
			r.termStep = e.Step()
			defer e.Logf("terminated %s (%s)", r.path, r.kind)
		}
		mu.Unlock()
	}
	termReason := map[gen.PID]string{}
	noteReason := func(pid gen.PID, reason error) {
		mu.Lock()
		termReason[pid] = fmt.Sprint(reason)
		mu.Unlock()
	}
	onMsg := func(m any) error {
		if s, ok := m.(string); ok {
			switch s {
			case "busy":
				e.Sleep(2 * time.Second)
				return nil
			case "error":
				return fmt.Errorf("boom")
			case "normal":
				return gen.TerminateReasonNormal
			case "shutdown":
				return gen.TerminateReasonShutdown
			case "panic":
				panic("injected")
			}
		}
		return nil
	}
	var factory func(nd C10Node, path string) gen.ProcessFactory
	factory = func(nd C10Node, path string) gen.ProcessFactory {
		h := &Hooks{Name: path, Env: e}
		switch nd.Kind {
		case "sup":
			h.SupInit = func(p *ProbeSup, args ...any) (act.SupervisorSpec, error) {
				record(p, "sup", path)
				spec := act.SupervisorSpec{Type: supType(nd.Type), Restart: act.SupervisorRestart{Strategy: supStrategy(nd.Strategy), Intensity: 3, Period: 5, KeepOrder: len(path)%2 == 0}}
				for i, ch := range nd.Children {
					cp := fmt.Sprintf("%s.%d", path, i)
					spec.Children = append(spec.Children, act.SupervisorChildSpec{Name: gen.Atom("n" + cp), Factory: factory(ch, cp)})
				}
				return spec, nil
			}
			h.SupMessage = func(p *ProbeSup, from gen.PID, m any) error {
				if m == "disable" {
					if len(nd.Children) > 0 {
						err := p.DisableChild(gen.Atom("n" + path + ".0"))
						e.Logf("%s disables its first child -> %v", path, err)
					}
					return nil
				}
				return onMsg(m)
			}
			h.SupTerminate = func(p *ProbeSup, reason error) { noteReason(p.PID(), reason); terminated(p.PID()) }
			return ProbeSupFactory(h)
		case "pool":
			wh := &Hooks{Name: path + ".w", Env: e, Trap: nd.Trap}
			nWorkers := 0
			wh.Init = func(p *Probe, args ...any) error {
				record(p, "worker", path+".w")
				mu.Lock()
				nWorkers++
				k := nWorkers
				mu.Unlock()
				if nd.FailInit > 0 && k == nd.FailInit {
					e.Logf("worker %d of %s fails in Init", k, path)
					mu.Lock()
					if r := byPID[p.PID()]; r != nil {
						r.term, r.termStep = true, e.Step()
					}
					mu.Unlock()
					return fmt.Errorf("worker init failed")
				}
				return nil
			}
			wh.Message = func(p *Probe, from gen.PID, m any) error { return onMsg(m) }
			wh.Terminate = func(p *Probe, reason error) { terminated(p.PID()) }
			h.PoolInit = func(p *ProbePool, args ...any) (act.PoolOptions, error) {
				record(p, "pool", path)
				return act.PoolOptions{PoolSize: int64(nd.Size), WorkerFactory: ProbeFactory(wh)}, nil
			}
			h.PoolMessage = func(p *ProbePool, from gen.PID, m any) error { return onMsg(m) }
			h.PoolTerminate = func(p *ProbePool, reason error) { noteReason(p.PID(), reason); terminated(p.PID()) }
			return ProbePoolFactory(h)
		}
		h.Trap = nd.Trap
		h.Init = func(p *Probe, args ...any) error { record(p, "actor", path); return nil }
		h.Message = func(p *Probe, from gen.PID, m any) error { return onMsg(m) }
		h.Terminate = func(p *Probe, reason error) { terminated(p.PID()) }
		return ProbeFactory(h)
	}

	alive := func(pid gen.PID) bool {
		_, err := n.ProcessInfo(pid)
		return err == nil
	}
	aliveFn = alive
	inject := func(f C10Fault) {
		mu.Lock()
		if len(recs) == 0 {
			mu.Unlock()
			return
		}
		r := recs[f.Target%len(recs)]
		parent := byPID[r.parent]
		mu.Unlock()
		if parent != nil && !parent.term && parent.at == e.Now() && !alive(parent.pid) {
			diedDuringParentInit = true
			e.Logf("fault hits %s while its parent %s is still initialising", r.path, parent.path)
		}
		var err error
		if f.How != "busy" && f.How != "disable" {
			mu.Lock()
			if hitBy[r.pid] == "" {
				hitBy[r.pid] = f.How
			}
			mu.Unlock()
		}
		switch f.How {
		case "kill":
			err = n.Kill(r.pid)
		default:
			// High priority so that pools and supervisors handle it themselves
			err = n.SendWithPriority(r.pid, f.How, gen.MessagePriorityHigh)
		}
		e.Logf("fault %s on %s (%s) -> %v", f.How, r.path, r.kind, err)
	}

	tagOf := func() string {
		if diedDuringParentInit {
			return " [a child died while its parent was still in ProcessInit]"
		}
		return ""
	}
	// start-up faults race with the construction of the tree
	for i, f := range c.Faults {
		if f.Phase != "startup" {
			continue
		}
		f := f
		e.Go(fmt.Sprintf("startup-fault%d", i), func() {
			e.Gate("harness:startup-fault")
			inject(f)
		})
		e.Probe("fault-during-startup")
	}
	var rootPID gen.PID
	rootFactory := factory(c.Root, "r")
	if c.InApp {
		app := &c10App{spec: gen.ApplicationSpec{Name: "tree", Mode: gen.ApplicationModeTemporary,
			Group: []gen.ApplicationMemberSpec{{Name: "treeroot", Factory: rootFactory}}}}
		if _, err := n.ApplicationLoad(app); err != nil {
			e.Fail("C10/unexpected-failure", "ApplicationLoad: %v", err)
			return
		}
		if err := n.ApplicationStart("tree", gen.ApplicationOptions{}); err != nil {
			// a start-up fault may legitimately make the start fail; then nothing may be left
			e.Logf("application start failed: %v", err)
		}
	} else {
		pid, err := n.SpawnRegister("treeroot", rootFactory, gen.ProcessOptions{})
		if err != nil {
			e.Logf("root spawn failed: %v", err)
		}
		rootPID = pid
	}
	e.WaitClients(time.Minute)
	e.Settle(2 * time.Second)
	mu.Lock()
	if len(recs) > 0 {
		rootPID = recs[0].pid
	}
	mu.Unlock()

	// steady-state faults, back to back (later ones land in the reaction to earlier ones)
	for _, f := range c.Faults {
		if f.Phase == "steady" {
			inject(f)
			e.Gate("harness:between-faults")
		}
	}
	if !c.Rush {
		e.Settle(30 * time.Second)
		// traffic through the pools, so that workers found dead are replaced before the final action
		mu.Lock()
		pools := []gen.PID{}
		for _, r := range recs {
			if r.kind == "pool" {
				pools = append(pools, r.pid)
			}
		}
		mu.Unlock()
		for _, pp := range pools {
			for i := 0; i < 4; i++ {
				n.Send(pp, i)
			}
		}
		e.Settle(5 * time.Second)
	} else {
		e.Probe("final-action-during-reaction")
		if r := e.R.Intn(3); r > 0 {
			e.Settle(time.Duration(r) * 5 * time.Millisecond)
		}
	}

	// processes outside the tree that will spawn while the node is being stopped
	type lateSpawn struct {
		pid gen.PID
		err error
		ret bool
	}
	lates := make([]*lateSpawn, c.StopSpawns)
	var spawners []gen.PID
	for i := range lates {
		i := i
		lates[i] = &lateSpawn{}
		xh := &Hooks{Name: fmt.Sprintf("x%d", i), Env: e}
		xh.Init = func(p *Probe, args ...any) error { record(p, "actor", fmt.Sprintf("x%d", i)); return nil }
		xh.Terminate = func(p *Probe, reason error) { terminated(p.PID()) }
		sh := &Hooks{Name: fmt.Sprintf("spawner%d", i), Env: e}
		sh.Init = func(p *Probe, args ...any) error { record(p, "actor", fmt.Sprintf("spawner%d", i)); return nil }
		sh.Message = func(p *Probe, from gen.PID, m any) error {
			if m == "spawn" {
				pid, err := p.Spawn(ProbeFactory(xh), gen.ProcessOptions{})
				mu.Lock()
				lates[i].pid, lates[i].err, lates[i].ret = pid, err, true
				mu.Unlock()
				e.Logf("spawner%d: Spawn during the node stop -> %v", i, err)
			}
			return nil
		}
		sh.Terminate = func(p *Probe, reason error) { terminated(p.PID()) }
		sp, err := n.Spawn(ProbeFactory(sh), gen.ProcessOptions{})
		if err != nil {
			e.Infra("spawn spawner: " + err.Error())
			return
		}
		spawners = append(spawners, sp)
	}

	// processes registered right before the final action
	wasAlive := map[gen.PID]bool{}
	mu.Lock()
	snapshot := append([]*c10Rec(nil), recs...)
	mu.Unlock()
	for _, r := range snapshot {
		wasAlive[r.pid] = alive(r.pid)
	}
	// final action
	finalStart := e.Step()
	finalOK := true
	finalRet := 0
	_ = finalRet
	call := func(name string, f func() error) {
		done := make(chan error, 1)
		go func() {
			e.S.Gate("harness:final")
			done <- f()
		}()
		t := time.NewTimer(5 * time.Minute)
		defer t.Stop()
		select {
		case err := <-done:
			e.Gate("harness:final-returned")
			finalRet = e.Step()
			if err != nil {
				e.Logf("%s -> %v", name, err)
				finalOK = false
			}
		case <-t.C:
			e.Gate("harness:final-timeout")
			e.Fail("C10/stop-hangs", "%s did not return within 5 simulated minutes%s", name, tagOf())
			finalOK = false
		}
	}
	switch c.Final {
	case "appstop":
		call("ApplicationStop", func() error { return n.ApplicationStop("tree") })
	case "appstopforce":
		call("ApplicationStopForce", func() error { n.ApplicationStopForce("tree"); return nil })
	case "nodestop":
		n.SetCTRLC(false)
		for i, sp := range spawners {
			sp := sp
			e.Go(fmt.Sprintf("kick-spawner%d", i), func() { n.Send(sp, "spawn") })
			e.Probe("spawn-during-node-stop")
		}
		call("Node.Stop", func() error { n.Stop(); return nil })
		stopped = true
	case "killroot":
		n.Kill(rootPID)
	}
	if e.Failed() {
		return
	}
	if c.Final == "nodestop" || c.Final == "appstop" {
		// success was reported: everything under it must be gone already
		if finalOK {
			// let Terminate callbacks that were already on their way finish (no simulated time passes)
			e.Settle(time.Millisecond)
			mu.Lock()
			rs := append([]*c10Rec(nil), recs...)
			mu.Unlock()
			for _, r := range rs {
				if !r.term && wasAlive[r.pid] {
					if c.Final == "nodestop" || alive(r.pid) {
						// why could it be left behind: the nearest owner above it that is already gone
						why := ""
						mu.Lock()
						for o := byPID[r.parent]; o != nil; o = byPID[o.parent] {
							if o.term {
								if o.kind == "pool" {
									why = " [its owner is a pool, which does not wait for its workers]"
								} else if h := hitBy[o.pid]; h != "" {
									why = fmt.Sprintf(" [its owner %s was terminated by an injected %s and could not wait]", o.path, h)
								} else if o.termStep < finalStart {
									why = fmt.Sprintf(" [its owner %s had terminated on its own before the stop was requested and could not wait]", o.path)
								} else if tr := termReason[o.pid]; tr != "" && tr != gen.TerminateReasonShutdown.Error() && tr != gen.TerminateReasonNormal.Error() {
									why = fmt.Sprintf(" [its owner %s ended through a failure and could not wait]", o.path)
								}
								break
							}
						}
						mu.Unlock()
						e.Fail("C10/stop-returned-early", "%s reported success while %s (%s) had not terminated%s%s", c.Final, r.path, r.kind, why, tagOf())
						return
					}
				}
			}
			for i, l := range lates {
				mu.Lock()
				ok := l.ret && l.err == nil
				r := byPID[l.pid]
				mu.Unlock()
				if ok && r != nil && !r.term {
					e.Fail("C10/stop-returned-early", "nodestop reported success while %s, spawned successfully by spawner%d while the node was being stopped, had not terminated", r.path, i)
					return
				}
			}
			e.Probe("graceful-stop-completed")
		}
	}
	if c.Final == "nodestop" {
		return
	}
	e.Settle(30 * time.Second)
	mu.Lock()
	rs := append([]*c10Rec(nil), recs...)
	mu.Unlock()
	if (c.Final == "appstop" && finalOK) || c.Final == "appstopforce" {
		if l, err := n.ApplicationProcessList("tree", 100); err == nil && len(l) > 0 {
			e.Fail("C10/application-leftover", "after %s the application still lists %d processes%s", c.Final, len(l), tagOf())
			return
		}
		for _, r := range rs {
			if alive(r.pid) {
				e.Fail("C10/application-leftover", "after %s process %s (%s) of the application is still running%s", c.Final, r.path, r.kind, tagOf())
				return
			}
		}
	}
	owners := 0
	for _, r := range rs {
		pr := byPID[r.parent]
		if pr == nil {
			continue
		}
		if !alive(pr.pid) {
			if alive(r.pid) {
				e.Fail("C10/orphan", "%s (%s) is still running although its owner %s (%s) has terminated (final action %s)%s", r.path, r.kind, pr.path, pr.kind, c.Final, tagOf())
				return
			}
			owners++
		}
	}
	if owners > 0 {
		e.Probe("owner-terminated-with-dependants")
	}
	if len(rs) > 14 {
		e.Probe("restart-wave-in-tree")
	}
}
