package props

import (
	"bytes"
	"compress/gzip"
	"crypto/sha256"
	"encoding/binary"
	"fmt"
	"net"
	"os"
	"reflect"
	"runtime"
	"strings"
	"sync"
	"time"

	"ergo.services/ergo/gen"
	"ergo.services/ergo/lib"
	"ergo.services/ergo/net/edf"
	"ergo.services/ergo/net/handshake"

	"verifsim/simkit"
)

// C16 Hostile input safety of decoder, handshake and frame parser (fault reading: a live
// cluster receives bytes the protocol did not produce).

type C16Mut struct {
	Kind string `json:"kind"` // flip | trunc | len | type | order | garbage | zlen | zbomb | splice | hsflip | hshuge | hsgarbage
	Src  int    `json:"src"`  // which captured frame
	Pos  int    `json:"pos"`
	Val  int    `json:"val"`
}

type C16Case struct {
	Muts    []C16Mut `json:"muts"`
	Stream  int      `json:"stream"` // background messages B -> A
	Segment bool     `json:"segment"`
}

type c16 struct{}

func init() { Register(c16{}) }

func (c16) ID() string    { return "C16" }
func (c16) Level() string { return "exploration" }
func (c16) NewCase() any  { return &C16Case{} }
func (c16) Nontrivial() []string {
	return []string{"mutated-frame-injected", "mutated-handshake-sent", "offending-connection-closed", "mutated-frame-decoded", "decode-error-logged"}
}
func (c16) Rule() string {
	return "case = a healthy cluster of three real nodes over simulated TCP with numbered background traffic B -> A and local traffic on A; on the C -> A connection (or on a fresh dial to A's acceptor) 1-6 units of traffic the protocol did not produce are injected, " +
		"derived from frames and handshake messages captured in the same run: bit flips, truncation, inflated / deflated / zero length fields, wrong type and order bytes, unknown cache ids, spliced frames, random garbage, compressed envelopes with a lying unpacked length or garbage body. " +
		"Oracles: the worker process does not crash, the run reaches quiescence within the step budget, bytes allocated while one unit is handled stay below 64 MiB + 4096 x unit length, the background stream B -> A arrives complete, once and in order, " +
		"A's local processes keep working and A stays connected to B, and every mutated payload that still decodes and reaches a process re-encodes to bytes that decode to an equal value. The bare-decoder clause (every byte string into edf.Decode) is only sampled along this path. " +
		"Non-trivial = at least one mutated unit was injected; distinct = distinct (schedule, history) hashes."
}
func (c16) Components() ([]string, []string) {
	return []string{"net/proto frame parser, receive queues, decompression", "net/handshake message reader", "net/edf decoder", "lib.Buffer / lib/compress"},
		[]string{"TCP (simnet: byte injection into a live link)", "registrar (static table)", "default logger disabled"}
}

var c16Kinds = []string{"flip", "flip", "flip", "trunc", "len", "len", "type", "order", "garbage", "zlen", "zbomb", "splice", "hsflip", "hshuge", "hsgarbage", "count", "count", "hsvalue", "shortframe", "shortframe", "hsauth", "hsauth", "hsacceptor", "hsacceptor"}

// c16Counts: offsets (>= from) of 4-byte big-endian fields holding a small number - lengths and
// element counts of the encoded values
func c16Counts(f []byte, from int) []int {
	var out []int
	for i := from; i+4 <= len(f); i++ {
		if f[i] == 0 && f[i+1] == 0 && (f[i+2] != 0 || f[i+3] != 0) {
			out = append(out, i)
		}
	}
	return out
}

var c16Big = []uint32{0x00ffffff, 0x0fffffff, 0x10000000, 0x7fffffff, 0xffffffff, 0x01000000}

func (c16) Generate(r *simkit.Rand, tier string) any {
	c := &C16Case{Stream: r.Range(5, 20), Segment: r.Bool()}
	n := r.Range(1, 4)
	if tier == "thorough" {
		n = r.Range(1, 8)
	}
	for i := 0; i < n; i++ {
		c.Muts = append(c.Muts, C16Mut{Kind: c16Kinds[r.Intn(len(c16Kinds))], Src: r.Intn(16), Pos: r.Intn(1 << 16), Val: r.Intn(1 << 30)})
	}
	return c
}

func (c16) Shrink(cc any) []any {
	c := cc.(*C16Case)
	var out []any
	for i := range c.Muts {
		if len(c.Muts) > 1 {
			n := cloneJSON(c)
			n.Muts = dropAt(n.Muts, i)
			out = append(out, n)
		}
	}
	if c.Stream > 5 {
		n := cloneJSON(c)
		n.Stream = 5
		out = append(out, n)
	}
	return out
}

func (c16) Sched(r *simkit.Rand, c any) simkit.SchedSpec {
	s := DefaultSched(r, 4000)
	s.MaxSteps = 1500000
	return s
}

func (c16) Judge(cc any, res *simkit.Result) {
	if res.Violation == nil && res.Infra == "" && res.OverBudget {
		res.Violation = &simkit.Violation{Class: "C16/busy-loop", Step: res.Steps,
			Detail: fmt.Sprintf("after malformed traffic the cluster did not reach quiescence within %d scheduling decisions", res.Steps)}
	}
}

// splitFrames cuts a captured byte stream of a link into protocol frames.
func splitFrames(stream []byte) [][]byte {
	var out [][]byte
	for len(stream) >= 8 {
		if stream[0] != 78 {
			// handshake message: 87, version, 4 bytes length
			if stream[0] == 87 && len(stream) >= 6 {
				l := int(binary.BigEndian.Uint32(stream[2:6])) + 6
				if l > len(stream) {
					break
				}
				stream = stream[l:]
				continue
			}
			break
		}
		l := int(binary.BigEndian.Uint32(stream[2:6]))
		if l < 8 || l > len(stream) {
			break
		}
		out = append(out, append([]byte(nil), stream[:l]...))
		stream = stream[l:]
	}
	return out
}

func splitHandshake(stream []byte) [][]byte {
	var out [][]byte
	for len(stream) >= 6 && stream[0] == 87 {
		l := int(binary.BigEndian.Uint32(stream[2:6])) + 6
		if l > len(stream) {
			break
		}
		out = append(out, append([]byte(nil), stream[:l]...))
		stream = stream[l:]
	}
	return out
}

func mutate(m C16Mut, frames, hs [][]byte) (unit []byte, handshake bool) {
	pick := func(xs [][]byte) []byte {
		if len(xs) == 0 {
			return []byte{78, 1, 0, 0, 0, 8, 0, 101}
		}
		return append([]byte(nil), xs[m.Src%len(xs)]...)
	}
	switch m.Kind {
	case "flip":
		f := pick(frames)
		f[m.Pos%len(f)] ^= 1 << (uint(m.Val) % 8)
		return f, false
	case "trunc":
		f := pick(frames)
		return f[:1+m.Pos%len(f)], false
	case "len":
		f := pick(frames)
		vals := []uint32{0, 1, 7, 8, 9, uint32(len(f) - 1), uint32(len(f) + 1), uint32(len(f) * 2), 0x00ffffff, 0x7fffffff, 0xffffffff}
		binary.BigEndian.PutUint32(f[2:6], vals[m.Val%len(vals)])
		return f, false
	case "type":
		f := pick(frames)
		f[7] = byte(m.Val)
		return f, false
	case "order":
		f := pick(frames)
		f[6] = byte(m.Val)
		return f, false
	case "garbage":
		n := 1 + m.Pos%64
		g := make([]byte, n)
		x := uint32(m.Val)
		for i := range g {
			x = x*1664525 + 1013904223
			g[i] = byte(x >> 24)
		}
		if m.Val%2 == 0 {
			g[0] = 78
			if len(g) > 1 {
				g[1] = 1
			}
		}
		return g, false
	case "zlen":
		// well-formed compressed envelope around a valid frame, with a lying unpacked length
		f := pick(frames)
		var zb bytes.Buffer
		zw := gzip.NewWriter(&zb)
		zw.Write(f)
		zw.Close()
		lens := []uint32{0, 1, uint32(len(f) - 1), uint32(len(f) + 1), 1 << 20, 1 << 26, 1 << 28}
		env := make([]byte, 13)
		env[0], env[1], env[6], env[7], env[8] = 78, 1, f[6], 200, 102
		binary.BigEndian.PutUint32(env[9:13], lens[m.Val%len(lens)])
		env = append(env, zb.Bytes()...)
		binary.BigEndian.PutUint32(env[2:6], uint32(len(env)))
		return env, false
	case "zbomb":
		// compressed envelope with a garbage body and a large declared size
		env := make([]byte, 13+16)
		env[0], env[1], env[6], env[7], env[8] = 78, 1, 1, 200, byte(100+m.Val%4)
		binary.BigEndian.PutUint32(env[9:13], uint32(1<<24+m.Pos))
		for i := 13; i < len(env); i++ {
			env[i] = byte(m.Val >> (uint(i) % 24))
		}
		binary.BigEndian.PutUint32(env[2:6], uint32(len(env)))
		return env, false
	case "splice":
		a, b := pick(frames), pick(frames)
		k := 8 + m.Pos%max(1, len(a)-8)
		out := append(a[:min(k, len(a))], b[min(8, len(b)):]...)
		binary.BigEndian.PutUint32(out[2:6], uint32(len(out)))
		return out, false
	case "shortframe":
		// a frame cut short whose length field says so: the stream stays in step, the handler of
		// the frame type finds less than it expects
		f := pick(frames)
		k := 8 + m.Pos%max(1, len(f)-8)
		f = f[:k]
		binary.BigEndian.PutUint32(f[2:6], uint32(k))
		return f, false
	case "count":
		// an announced length or element count far beyond what follows
		f := pick(frames)
		if offs := c16Counts(f, 8); len(offs) > 0 {
			binary.BigEndian.PutUint32(f[offs[m.Pos%len(offs)]:], c16Big[m.Val%len(c16Big)])
		}
		return f, false
	case "hsvalue":
		// a handshake frame that carries an arbitrary well-formed value (the first message of a
		// connection is decoded before anything is known about the peer) with one inflated count
		vals := []any{[]int64{1, 2, 3}, []string{"a", "b"}, []any{int64(1), "x"}, map[string]int64{"k": 1}, [][]byte{{1}, {2}}, []float64{1.5}, [3]int32{1, 2, 3},
			// arrays inside arrays, slices, maps and interface values: the announced sizes multiply
			[2][3]int32{{1, 2, 3}, {4, 5, 6}}, [][2][3]uint8{{{1, 2, 3}, {4, 5, 6}}}, []any{[2][2]int16{{1, 2}, {3, 4}}}, map[string][2][2]int32{"k": {{1, 2}, {3, 4}}}, [2][2][2]uint16{}}
		buf := lib.TakeBuffer()
		buf.Allocate(6)
		buf.B[0], buf.B[1] = 87, 1
		if err := edf.Encode(vals[m.Src%len(vals)], buf, edf.Options{}); err != nil {
			return []byte{87, 1, 0, 0, 0, 1, 0}, true
		}
		f := append([]byte(nil), buf.B...)
		binary.BigEndian.PutUint32(f[2:6], uint32(len(f)-6))
		if offs := c16Counts(f, 6); len(offs) > 0 {
			binary.BigEndian.PutUint32(f[offs[m.Pos%len(offs)]:], c16Big[m.Val%len(c16Big)])
		}
		return f, true
	case "hsflip":
		f := pick(hs)
		f[m.Pos%len(f)] ^= 1 << (uint(m.Val) % 8)
		return f, true
	case "hshuge":
		return []byte{87, 1, 0xff, byte(m.Val), 0xff, 0xff, 1, 2, 3, 4}, true
	case "hsgarbage":
		f := pick(hs)
		for i := 6; i < len(f); i += 1 + m.Val%7 {
			f[i] = byte(m.Val >> (uint(i) % 16))
		}
		return f, true
	}
	return []byte{0}, false
}

func (c16) Run(e *simkit.Env, cc any) {
	c := cc.(*C16Case)
	sn := simkit.NewSimNet(e)
	sn.MinLatency, sn.Jitter = time.Millisecond, time.Millisecond
	if c.Segment {
		sn.Segment = 1
	}
	var tmu sync.Mutex
	captured := map[int][]byte{} // dialler side byte stream per link
	sn.Tap = func(l *simkit.Link, side int, b []byte) {
		if side == 0 {
			tmu.Lock()
			captured[l.ID] = append(captured[l.ID], b...)
			tmu.Unlock()
		}
	}
	a := simkit.StartNetNode(e, sn, simkit.NetNodeOptions{Name: "a@h1", Cookie: "k"})
	b := simkit.StartNetNode(e, sn, simkit.NetNodeOptions{Name: "b@h2", Cookie: "k"})
	cn := simkit.StartNetNode(e, sn, simkit.NetNodeOptions{Name: "c@h3", Cookie: "k"})
	if a == nil || b == nil || cn == nil {
		return
	}
	defer func() {
		simkit.StopNode(e, a, false, 0)
		simkit.StopNode(e, b, false, 0)
		simkit.StopNode(e, cn, false, 0)
	}()
	var mu sync.Mutex
	var stream []int    // background numbers received on A from B
	var victimGot []any // whatever reaches the victim process
	var localGot int
	afterGot := map[int]int{} // numbers sent by processes of C after the attack
	bh := &Hooks{Name: "bystander", Env: e}
	bh.Message = func(p *Probe, from gen.PID, m any) error {
		if n, ok := m.(int); ok {
			mu.Lock()
			switch from.Node {
			case "b@h2":
				stream = append(stream, n)
			case "c@h3":
				afterGot[n]++
			default:
				localGot++
			}
			mu.Unlock()
		}
		return nil
	}
	bystander, err := a.SpawnRegister("bystander", ProbeFactory(bh), gen.ProcessOptions{})
	if err != nil {
		e.Infra("spawn bystander: " + err.Error())
		return
	}
	vh := &Hooks{Name: "victim", Env: e}
	vh.Message = func(p *Probe, from gen.PID, m any) error {
		mu.Lock()
		victimGot = append(victimGot, m)
		mu.Unlock()
		return nil
	}
	vh.Call = func(p *Probe, from gen.PID, ref gen.Ref, req any) (any, error) {
		mu.Lock()
		victimGot = append(victimGot, req)
		mu.Unlock()
		return "ok", nil
	}
	victim, err := a.SpawnRegister("victim", ProbeFactory(vh), gen.ProcessOptions{})
	if err != nil {
		e.Infra("spawn victim: " + err.Error())
		return
	}
	// B connects first (link 0), then C (link 1)
	if _, err := b.Network().GetNode("a@h1"); err != nil {
		e.Fail("C16/unexpected-failure", "b cannot connect to a: %v", err)
		return
	}
	e.Settle(time.Second)
	nLinksBefore := len(sn.Links())
	if _, err := cn.Network().GetNode("a@h1"); err != nil {
		e.Fail("C16/unexpected-failure", "c cannot connect to a: %v", err)
		return
	}
	e.Settle(time.Second)
	// corpus: C sends a few legitimate messages of different shapes
	corpus := &Hooks{Name: "corpus", Env: e}
	cdone := make(chan struct{})
	corpus.Message = func(p *Probe, from gen.PID, m any) error {
		p.Send(victim, "hello")
		p.Send(gen.ProcessID{Name: "victim", Node: "a@h1"}, ndPayload(7, "struct", 300))
		p.Send(victim, ndPayload(8, "map", 5))
		p.Send(victim, []int64{1, 2, 3, 4})
		p.Send(victim, []any{"x", int64(7), []string{"y", "z"}})
		p.SetCompression(true)
		p.SetCompressionThreshold(1024)
		p.Send(victim, ndPayload(9, "bytes", 5000))
		p.SetCompression(false)
		p.CallWithTimeout(victim, ndMsg{ID: 10, Data: int64(10)}, 2)
		p.SendImportant(victim, "important")
		close(cdone)
		return nil
	}
	cp, _ := cn.Spawn(ProbeFactory(corpus), gen.ProcessOptions{})
	cn.Send(cp, "go")
	if !e.WaitChan(cdone, time.Minute) {
		e.Fail("C16/unexpected-failure", "legitimate traffic c -> a did not complete")
		return
	}
	e.Settle(time.Second)
	mu.Lock()
	legit := len(victimGot)
	mu.Unlock()
	var cLink *simkit.Link
	for _, l := range sn.Links() {
		if l.ID >= nLinksBefore && l.ServerAddr == "h1:15000" {
			cLink = l
			break
		}
	}
	if cLink == nil {
		e.Infra("cannot find the c -> a link")
		return
	}
	tmu.Lock()
	frames := splitFrames(captured[cLink.ID])
	hs := splitHandshake(captured[cLink.ID])
	tmu.Unlock()
	if len(frames) < 4 || len(hs) < 2 {
		e.Infra(fmt.Sprintf("corpus too small: %d frames, %d handshake messages", len(frames), len(hs)))
		return
	}

	{
		var fl, hl []int
		for _, f := range frames {
			fl = append(fl, len(f))
		}
		for _, h := range hs {
			hl = append(hl, len(h))
		}
		e.Logf("corpus frames=%v handshake=%v", fl, hl)
		if os.Getenv("VERIF_C16_HEX") != "" {
			for _, f := range frames {
				if len(f) > 2000 {
					e.Logf("hex %x", f)
				}
			}
		}
	}
	// background traffic B -> A and local traffic on A, all along
	sh := &Hooks{Name: "streamer", Env: e}
	sdone := make(chan struct{})
	sh.Message = func(p *Probe, from gen.PID, m any) error {
		for i := 0; i < c.Stream; i++ {
			if err := p.Send(bystander, i); err != nil {
				e.Logf("background send %d -> %v", i, err)
			}
			e.Gate("streamer")
		}
		close(sdone)
		return nil
	}
	sp, _ := b.Spawn(ProbeFactory(sh), gen.ProcessOptions{})
	e.Go("stream-kick", func() {
		b.Send(sp, "go")
		e.WaitChan(sdone, 10*time.Minute)
	})
	e.Go("local", func() {
		for i := 0; i < 5; i++ {
			a.Send(bystander, 1000+i)
			e.Sleep(5 * time.Millisecond)
		}
	})

	// the attack
	var ms runtime.MemStats
	for i, m := range c.Muts {
		unit, isHS := mutate(m, frames, hs)
		runtime.ReadMemStats(&ms)
		before := ms.TotalAlloc
		if m.Kind == "hsacceptor" {
			// the node dials a peer that knows the cookie and answers the handshake with hostile values
			c16HostileAcceptor(e, sn, a, m)
			e.Probe("hostile-acceptor-dialled")
		} else if m.Kind == "hsauth" {
			// a peer that knows the cookie and completes the handshake correctly - with values a
			// program of its own may put there: holes in the caches, absurd limits and sizes
			c16AuthHandshake(e, sn, m)
			e.Probe("authenticated-hostile-handshake")
		} else if isHS {
			conn, err := sn.Dial("tcp", "h1:15000")
			if err == nil {
				conn.Write(unit)
				e.Settle(1500 * time.Millisecond)
				conn.Close()
			}
			e.Probe("mutated-handshake-sent")
		} else {
			if cLink.IsCut() || !linkAlive(sn, cLink) {
				// the previous unit made A drop the connection: C connects again
				nb := len(sn.Links())
				if _, err := cn.Network().GetNode("a@h1"); err == nil {
					e.Settle(time.Second)
					for _, l := range sn.Links() {
						if l.ID >= nb && l.ServerAddr == "h1:15000" {
							cLink = l
						}
					}
				}
				e.Probe("offending-connection-closed")
			}
			cLink.Inject(1, unit)
			e.Probe("mutated-frame-injected")
			e.Settle(300 * time.Millisecond)
		}
		runtime.ReadMemStats(&ms)
		delta := ms.TotalAlloc - before
		e.Logf("unit %d kind=%s len=%d", i, m.Kind, len(unit))
		if delta > 64<<20+4096*uint64(len(unit)) {
			e.Fail("C16/allocation", "handling one malformed unit of %d bytes (%s) allocated %d bytes", len(unit), m.Kind, delta)
			return
		}
	}
	e.WaitClients(20 * time.Minute)
	e.Settle(10 * time.Second)
	if e.Failed() {
		return
	}
	// the offending connection is either closed (C connects again) or still works - for every
	// receive queue: processes of C with consecutive ids write to A in three rounds. Judged only
	// when every injected unit kept the stream in step (a wrong length field or cut-off bytes make
	// the receiver wait for, or swallow, what follows: nothing the receiver could do about)
	inStep := true
	for _, m := range c.Muts {
		switch m.Kind {
		case "type", "order", "zlen", "zbomb", "splice", "count", "shortframe", "hsvalue", "hsflip", "hshuge", "hsgarbage", "hsauth", "hsacceptor":
		default:
			inStep = false
		}
	}
	const afterSenders = 8
	var afterPIDs []gen.PID
	for i := 0; i < afterSenders; i++ {
		ah := &Hooks{Name: fmt.Sprintf("after%d", i), Env: e}
		ah.Message = func(p *Probe, from gen.PID, m any) error {
			if n, ok := m.(int); ok {
				p.Send(gen.ProcessID{Name: "bystander", Node: "a@h1"}, n)
			}
			return nil
		}
		pid, err := cn.Spawn(ProbeFactory(ah), gen.ProcessOptions{})
		if err != nil {
			e.Infra("spawn after-sender: " + err.Error())
			return
		}
		afterPIDs = append(afterPIDs, pid)
	}
	for round := 0; round < 3 && inStep; round++ {
		for i, pid := range afterPIDs {
			cn.Send(pid, 1000+round*100+i)
		}
		e.Settle(3 * time.Second)
	}
	mu.Lock()
	missing := []int{}
	for i := range afterPIDs {
		if afterGot[1200+i] != 1 {
			missing = append(missing, i)
		}
	}
	mu.Unlock()
	if len(missing) > 0 && inStep {
		e.Fail("C16/offending-connection-stuck", "after the malformed traffic the connection c -> a is neither closed nor working: in the third round of ordinary messages from %d processes of c (3 s apart) those of processes %v did not arrive", afterSenders, missing)
		return
	}
	if inStep {
		e.Probe("offending-connection-usable-again")
	}
	for _, pl := range e.Panics() {
		e.Probe("panic-recovered")
		_ = pl
	}
	mu.Lock()
	defer mu.Unlock()
	// bystanders unaffected
	if len(stream) != c.Stream {
		e.Fail("C16/bystander-traffic-lost", "%d of %d background messages b -> a arrived while malformed traffic was fed into the c -> a connection", len(stream), c.Stream)
		return
	}
	for i, n := range stream {
		if n != i {
			e.Fail("C16/bystander-traffic-disturbed", "background stream b -> a arrived as %v", stream)
			return
		}
	}
	if localGot != 5 {
		e.Fail("C16/local-process-affected", "a local process of a received %d of 5 local messages", localGot)
		return
	}
	if _, err := a.Network().Node("b@h2"); err != nil {
		e.Fail("C16/bystander-connection-closed", "malformed traffic on the c -> a connection closed the a - b connection: %v", err)
		return
	}
	if _, err := a.ProcessInfo(bystander); err != nil {
		e.Fail("C16/local-process-affected", "the bystander process on a is gone: %v", err)
		return
	}
	// re-encode agreement for whatever decoded
	for _, v := range victimGot[legit:] {
		e.Probe("mutated-frame-decoded")
		buf := lib.TakeBuffer()
		if err := edf.Encode(v, buf, edf.Options{}); err != nil {
			continue // not every decodable value is encodable without registration context
		}
		v2, _, err := edf.Decode(buf.B, edf.Options{})
		if err != nil || !reflect.DeepEqual(v, v2) {
			e.Fail("C16/reencode-mismatch", "a value that decoded from mutated traffic (%T) does not survive encode/decode: %v", v, err)
			return
		}
	}
}

func linkAlive(sn *simkit.SimNet, l *simkit.Link) bool {
	for _, x := range sn.LiveLinks() {
		if x == l {
			return true
		}
	}
	return false
}

// c16AuthHandshake plays a dialling peer "x@h7" that knows the cookie: hello and introduce carry the
// right digests, the rest of the introduce message is hostile.
func c16AuthHandshake(e *simkit.Env, sn *simkit.SimNet, m C16Mut) {
	conn, err := sn.Dial("tcp", "h1:15000")
	if err != nil {
		return
	}
	defer conn.Close()
	digest := func(parts ...string) string {
		h := sha256.New()
		h.Write([]byte(strings.Join(parts, ":")))
		return fmt.Sprintf("%x", h.Sum(nil))
	}
	salt := "c16-salt-0123456789"
	conn.Write(hsFrame(handshake.MessageHello{Salt: salt, Digest: digest(salt, "k")}))
	// the acceptor's hello carries the salt its introduce digest is made of
	var got []byte
	buf := make([]byte, 4096)
	var hello handshake.MessageHello
	for tries := 0; tries < 20; tries++ {
		conn.SetReadDeadline(time.Now().Add(time.Second))
		n, rerr := conn.Read(buf)
		got = append(got, buf[:n]...)
		if len(got) >= 6 && len(got) >= 6+int(binary.BigEndian.Uint32(got[2:6])) {
			v, _, derr := edf.Decode(got[6:6+int(binary.BigEndian.Uint32(got[2:6]))], edf.Options{})
			if derr == nil {
				hello, _ = v.(handshake.MessageHello)
			}
			break
		}
		if rerr != nil {
			return
		}
		e.Gate("adversary")
	}
	if hello.Salt == "" {
		return
	}
	intro := handshake.MessageIntroduce{Node: "x@h7", Version: simkit.SimVersion, Flags: gen.DefaultNetworkFlags, Creation: 946684999, Digest: digest(hello.Salt, "k")}
	switch m.Val % 6 {
	case 0:
		intro.ErrCache = map[uint16]error{5000: nil, 5001: fmt.Errorf("e")}
	case 1:
		intro.MaxMessageSize = -1
	case 2:
		intro.AtomCache = map[uint16]gen.Atom{}
		for i := 0; i < 3000; i++ {
			intro.AtomCache[uint16(i)] = gen.Atom(fmt.Sprintf("atom-%d-%s", i, strings.Repeat("y", m.Pos%200)))
		}
	case 3:
		intro.RegCache = map[uint16]string{4096: "", 4097: "#no/such.Type", 65535: strings.Repeat("t", 300)}
	case 4:
		intro.Node = ""
	case 5:
		intro.Creation = 0
		intro.Flags = gen.NetworkFlags{}
	}
	f := hsFrame(intro)
	if f == nil {
		return
	}
	conn.Write(f)
	e.Settle(300 * time.Millisecond)
	conn.Write(hsFrame(handshake.MessageAccept{}))
	e.Settle(500 * time.Millisecond)
	// and one ordinary-looking frame on the established connection
	conn.Write([]byte{78, 1, 0, 0, 0, 9, 0, 101, 0})
	e.Settle(500 * time.Millisecond)
}

func c16ReadFrame(e *simkit.Env, conn net.Conn, got []byte) (any, []byte) {
	buf := make([]byte, 8192)
	for tries := 0; tries < 40; tries++ {
		if len(got) >= 6 {
			l := int(binary.BigEndian.Uint32(got[2:6]))
			if len(got) >= 6+l {
				v, _, err := edf.Decode(got[6:6+l], edf.Options{})
				if err != nil {
					return nil, nil
				}
				return v, got[6+l:]
			}
		}
		conn.SetReadDeadline(time.Now().Add(time.Second))
		n, err := conn.Read(buf)
		got = append(got, buf[:n]...)
		if err != nil && n == 0 {
			return nil, nil
		}
		e.Gate("adversary")
	}
	return nil, nil
}

// c16HostileAcceptor: an acceptor "x@h7" that knows the cookie. The node under test dials it (static
// route) and gets a correct hello, then an accept / introduce pair with hostile values.
func c16HostileAcceptor(e *simkit.Env, sn *simkit.SimNet, a gen.Node, m C16Mut) {
	ln, err := sn.Listen("tcp", "h7:15000")
	if err != nil {
		return
	}
	defer ln.Close()
	a.Network().AddRoute("x@h7", gen.NetworkRoute{Route: gen.Route{Host: "h7", Port: 15000}}, 100)
	defer a.Network().RemoveRoute("x@h7")
	digest := func(parts ...string) string {
		h := sha256.New()
		h.Write([]byte(strings.Join(parts, ":")))
		return fmt.Sprintf("%x", h.Sum(nil))
	}
	served := make(chan struct{})
	e.Go("hostile-acceptor", func() {
		defer close(served)
		conn, err := ln.Accept()
		if err != nil {
			return
		}
		defer conn.Close()
		v, rest := c16ReadFrame(e, conn, nil)
		hello, ok := v.(handshake.MessageHello)
		if !ok {
			return
		}
		salt2 := "c16-acceptor-salt"
		conn.Write(hsFrame(handshake.MessageHello{Salt: salt2, Digest: digest(salt2, hello.Digest, "k")}))
		v, rest = c16ReadFrame(e, conn, rest)
		if _, ok := v.(handshake.MessageIntroduce); !ok {
			return
		}
		acc := handshake.MessageAccept{ID: "c16-connection", PoolSize: 1, PoolDSN: []string{"h7:15000"}}
		intro := handshake.MessageIntroduce{Node: "x@h7", Version: simkit.SimVersion, Flags: gen.DefaultNetworkFlags, Creation: 946684998}
		switch m.Val % 7 {
		case 0:
			acc.PoolSize = 0
		case 1:
			acc.PoolSize = -3
		case 2:
			acc.PoolSize = 1 << 24
		case 3:
			acc.PoolDSN = nil
		case 4:
			acc.PoolDSN = []string{"", ":::", strings.Repeat("h", 300) + ":1"}
			acc.PoolSize = 3
		case 5:
			intro.ErrCache = map[uint16]error{5000: nil}
		case 6:
			intro.Node = "a@h1"
		}
		conn.Write(hsFrame(acc))
		e.Gate("adversary")
		conn.Write(hsFrame(intro))
		c16ReadFrame(e, conn, rest)
		// one ordinary-looking frame on the established connection
		conn.Write([]byte{78, 1, 0, 0, 0, 9, 1, 101, 0})
		time.Sleep(500 * time.Millisecond)
		e.Gate("adversary")
	})
	done := make(chan struct{})
	e.Go("dial-hostile-acceptor", func() {
		defer close(done)
		_, err := a.Network().GetNode("x@h7")
		e.Logf("GetNode(x@h7) -> %v", err)
	})
	e.WaitChan(done, time.Minute)
	ln.Close()
	e.WaitChan(served, time.Minute)
	e.Settle(time.Second)
	if rn, err := a.Network().Node("x@h7"); err == nil {
		rn.Disconnect()
		e.Settle(time.Second)
	}
}
