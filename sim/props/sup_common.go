package props

import (
	"errors"
	"fmt"
	"sort"
	"sync"
	"time"

	"ergo.services/ergo/act"
	"ergo.services/ergo/gen"

	"verifsim/simkit"
)

// Shared supervisor workload of C08 (restart semantics) and C09 (restart intensity).

type SupEvent struct {
	Kind   string `json:"kind"`   // exit | disable | enable | start | stranger | sofostart
	Child  int    `json:"child"`  // spec index (sofo exit: instance index modulo live instances)
	Reason string `json:"reason"` // normal | shutdown | error | kill | panic
	GapMs  int    `json:"gap_ms"` // simulated time before this event
}

type SupCase struct {
	Type        string     `json:"type"`     // ofo | afo | rfo | sofo
	Strategy    string     `json:"strategy"` // transient | temporary | permanent
	KeepOrder   bool       `json:"keep_order"`
	NoAutoStop  bool       `json:"disable_auto_shutdown"`
	Significant []bool     `json:"significant"` // one per child spec
	Intensity   int        `json:"intensity"`
	Period      int        `json:"period"`
	Events      []SupEvent `json:"events"`
	Overlap     bool       `json:"overlap"` // inject events without waiting for quiescence
}

func supType(t string) act.SupervisorType {
	switch t {
	case "afo":
		return act.SupervisorTypeAllForOne
	case "rfo":
		return act.SupervisorTypeRestForOne
	case "sofo":
		return act.SupervisorTypeSimpleOneForOne
	}
	return act.SupervisorTypeOneForOne
}

func supStrategy(s string) act.SupervisorStrategy {
	switch s {
	case "temporary":
		return act.SupervisorStrategyTemporary
	case "permanent":
		return act.SupervisorStrategyPermanent
	}
	return act.SupervisorStrategyTransient
}

// ---- reference model (written from the documented rules, not from the state machines) ----

type supModel struct {
	c        *SupCase
	n        int
	running  []bool
	disabled []bool
	inc      []int // number of starts per spec
	alive    bool
	reason   string // reason class the supervisor must have terminated with
	restarts []time.Duration
	// sofo: live instances as spec indexes, in start order
	inst      []int
	ambiguous bool // a restart fell exactly on the period boundary
}

func newSupModel(c *SupCase) *supModel {
	n := len(c.Significant)
	m := &supModel{c: c, n: n, running: make([]bool, n), disabled: make([]bool, n), inc: make([]int, n), alive: true}
	if c.Type != "sofo" {
		for i := 0; i < n; i++ {
			m.running[i] = true
			m.inc[i] = 1
		}
	}
	return m
}

func abnormal(reason string) bool { return reason != "normal" && reason != "shutdown" }

func (m *supModel) anyRunning() bool {
	for _, r := range m.running {
		if r {
			return true
		}
	}
	return false
}

func (m *supModel) stopAll(reason string) {
	for i := range m.running {
		m.running[i] = false
	}
	m.inst = nil
	m.alive = false
	m.reason = reason
}

// intensityExceeded applies the sliding window rule: the failure needs a
// restart; does it need the (Intensity+1)-th restart within the last Period seconds?
func (m *supModel) intensityExceeded(now time.Duration) bool {
	// an option left at zero takes its documented default (5 restarts, 5 seconds), each on its own
	intensity, per := m.c.Intensity, m.c.Period
	if intensity == 0 {
		intensity = 5
	}
	if per == 0 {
		per = 5
	}
	period := time.Duration(per) * time.Second
	m.restarts = append(m.restarts, now)
	cnt := 0
	for _, t := range m.restarts {
		age := now - t
		if age == period {
			m.ambiguous = true
		}
		if age <= period {
			cnt++
		}
	}
	return cnt > intensity
}

func (m *supModel) wantsRestart(reason string) bool {
	switch m.c.Strategy {
	case "permanent":
		return true
	case "transient":
		return abnormal(reason)
	}
	return false
}

func (m *supModel) exit(i int, reason string, now time.Duration) {
	if !m.alive {
		return
	}
	if m.c.Type == "sofo" {
		spec := m.inst[i]
		m.inst = append(m.inst[:i:i], m.inst[i+1:]...)
		if !m.wantsRestart(reason) || m.disabled[spec] {
			return
		}
		if m.intensityExceeded(now) {
			m.stopAll("exceeded")
			return
		}
		m.inst = append(m.inst, spec)
		m.inc[spec]++
		return
	}
	m.running[i] = false
	if m.disabled[i] {
		if !m.anyRunning() && !m.c.NoAutoStop {
			m.stopAll(reason)
		}
		return
	}
	if !m.wantsRestart(reason) {
		if m.c.Significant[i] && m.c.Strategy != "permanent" {
			m.stopAll(reason)
			return
		}
		if !m.anyRunning() && !m.c.NoAutoStop {
			m.stopAll(reason)
		}
		return
	}
	if m.intensityExceeded(now) {
		m.stopAll("exceeded")
		return
	}
	switch m.c.Type {
	case "ofo":
		m.running[i] = true
		m.inc[i]++
	case "afo":
		for j := 0; j < m.n; j++ {
			if !m.disabled[j] {
				m.running[j] = true
				m.inc[j]++
			}
		}
	case "rfo":
		for j := i; j < m.n; j++ {
			if !m.disabled[j] {
				m.running[j] = true
				m.inc[j]++
			}
		}
	}
}

// applicable: can this management event be issued in the current model state
// (the workload only issues management calls whose documented meaning is unambiguous)?
func (m *supModel) applicable(ev SupEvent) bool {
	if !m.alive {
		return false
	}
	if m.c.Type == "sofo" {
		switch ev.Kind {
		case "exit":
			return len(m.inst) > 0
		case "sofostart":
			return !m.disabled[ev.Child%m.n]
		case "disable":
			return !m.disabled[ev.Child%m.n]
		case "enable":
			return m.disabled[ev.Child%m.n]
		case "stranger":
			return true
		}
		return false
	}
	i := ev.Child % m.n
	switch ev.Kind {
	case "exit", "disable":
		return m.running[i]
	case "enable":
		return m.disabled[i]
	case "start":
		return !m.running[i] && !m.disabled[i]
	case "stranger":
		return true
	}
	return false
}

// ---- real system ----

type supChildRec struct {
	spec      int
	inc       int
	pid       gen.PID
	initStep  int
	termStep  int
	reason    error
	terminate bool
}

type supRun struct {
	e      *simkit.Env
	c      *SupCase
	n      gen.Node
	prop   string
	mu     sync.Mutex
	recs   []*supChildRec
	byPID  map[gen.PID]*supChildRec
	supPID gen.PID
	supH   *Hooks
	snap   chan supSnap
	// supervisor termination
	supTerm   bool
	supReason error
	observed  []string // child terminations seen by HandleChildTerminate: "spec:reason"
	stranger  gen.PID
}

type supSnap struct{ children []act.SupervisorChild }

type supCtl struct {
	Do     string
	Child  gen.Atom
	Reason string
}

func childName(i int) gen.Atom { return gen.Atom(fmt.Sprintf("c%d", i)) }

func reasonErr(reason string) error {
	switch reason {
	case "normal":
		return gen.TerminateReasonNormal
	case "shutdown":
		return gen.TerminateReasonShutdown
	}
	return fmt.Errorf("boom-%s", reason)
}

func (r *supRun) childFactory(spec int) gen.ProcessFactory {
	h := &Hooks{Name: fmt.Sprintf("c%d", spec), Env: r.e}
	h.Init = func(p *Probe, args ...any) error {
		r.mu.Lock()
		cnt := 0
		for _, x := range r.recs {
			if x.spec == spec {
				cnt++
			}
		}
		rec := &supChildRec{spec: spec, inc: cnt + 1, pid: p.PID(), initStep: r.e.Step()}
		r.recs = append(r.recs, rec)
		r.byPID[p.PID()] = rec
		r.mu.Unlock()
		r.e.Logf("child c%d #%d starts", spec, cnt+1)
		return nil
	}
	h.Message = func(p *Probe, from gen.PID, m any) error {
		if s, ok := m.(string); ok {
			switch s {
			case "normal", "shutdown", "error":
				return reasonErr(s)
			case "panic":
				panic("injected child panic")
			}
		}
		return nil
	}
	h.Terminate = func(p *Probe, reason error) {
		r.mu.Lock()
		if rec := r.byPID[p.PID()]; rec != nil {
			rec.terminate = true
			rec.termStep = r.e.Step()
			rec.reason = reason
		}
		r.mu.Unlock()
		r.e.Logf("child c%d terminates: %s", spec, reasonKey(reason))
	}
	return ProbeFactory(h)
}

func startSupervisor(prop string, e *simkit.Env, c *SupCase) *supRun {
	n := simkit.StartLocalNode(e, "sup@sim", nil)
	if n == nil {
		return nil
	}
	r := &supRun{e: e, c: c, n: n, prop: prop, byPID: map[gen.PID]*supChildRec{}, snap: make(chan supSnap, 4)}
	h := &Hooks{Name: "sup", Env: e}
	r.supH = h
	h.SupInit = func(p *ProbeSup, args ...any) (act.SupervisorSpec, error) {
		spec := act.SupervisorSpec{
			Type:                supType(c.Type),
			EnableHandleChild:   true,
			DisableAutoShutdown: c.NoAutoStop,
			Restart: act.SupervisorRestart{Strategy: supStrategy(c.Strategy), Intensity: uint16(c.Intensity),
				Period: uint16(c.Period), KeepOrder: c.KeepOrder},
		}
		for i, sig := range c.Significant {
			spec.Children = append(spec.Children, act.SupervisorChildSpec{Name: childName(i), Significant: sig, Factory: r.childFactory(i)})
		}
		return spec, nil
	}
	h.SupMessage = func(p *ProbeSup, from gen.PID, m any) error {
		ctl, ok := m.(supCtl)
		if !ok {
			return nil
		}
		var err error
		switch ctl.Do {
		case "children":
			r.snap <- supSnap{children: p.Children()}
			return nil
		case "disable":
			err = p.DisableChild(ctl.Child)
		case "enable":
			err = p.EnableChild(ctl.Child)
		case "start":
			err = p.StartChild(ctl.Child)
		}
		if err != nil {
			e.Logf("sup %s %s -> %v", ctl.Do, ctl.Child, err)
			if !c.Overlap {
				e.Fail(prop+"/management-call-refused", "%s(%s) on a %s/%s supervisor in a quiescent state failed: %v", ctl.Do, ctl.Child, c.Type, c.Strategy, err)
			}
		}
		return nil
	}
	h.ChildTerminate = func(p *ProbeSup, name gen.Atom, pid gen.PID, reason error) error {
		r.mu.Lock()
		r.observed = append(r.observed, fmt.Sprintf("%s:%s", name, reasonKey(reason)))
		r.mu.Unlock()
		return nil
	}
	h.SupTerminate = func(p *ProbeSup, reason error) {
		r.mu.Lock()
		r.supTerm = true
		r.supReason = reason
		r.mu.Unlock()
		e.Logf("supervisor terminates: %v", reason)
	}
	pid, err := n.SpawnRegister("sup", ProbeSupFactory(h), gen.ProcessOptions{})
	if err != nil {
		e.Fail(prop+"/unexpected-failure", "supervisor with a valid spec did not start: %v", err)
		simkit.StopNode(e, n, false, 0)
		return nil
	}
	r.supPID = pid
	// the stranger: an unrelated actor able to send exit signals
	sh := &Hooks{Name: "stranger", Env: e, Trap: true}
	sh.Message = func(p *Probe, from gen.PID, m any) error {
		if s, ok := m.(string); ok {
			p.SendExit(r.supPID, reasonErr(s))
		}
		return nil
	}
	r.stranger, _ = n.Spawn(ProbeFactory(sh), gen.ProcessOptions{})
	return r
}

func (r *supRun) supAlive() bool {
	_, err := r.n.ProcessInfo(r.supPID)
	return err == nil
}

// children asks the supervisor for Children() (nil if it does not answer).
func (r *supRun) children() []act.SupervisorChild {
	if err := r.n.SendWithPriority(r.supPID, supCtl{Do: "children"}, gen.MessagePriorityHigh); err != nil {
		return nil
	}
	t := time.NewTimer(5 * time.Second)
	defer t.Stop()
	select {
	case s := <-r.snap:
		r.e.Gate("harness:children")
		if s.children == nil {
			return []act.SupervisorChild{}
		}
		return s.children
	case <-t.C:
		r.e.Gate("harness:children-timeout")
		return nil
	}
}

func (r *supRun) liveRecs() []*supChildRec {
	r.mu.Lock()
	recs := append([]*supChildRec(nil), r.recs...)
	r.mu.Unlock()
	var out []*supChildRec
	for _, x := range recs {
		if _, err := r.n.ProcessInfo(x.pid); err == nil {
			out = append(out, x)
		}
	}
	sort.Slice(out, func(i, j int) bool { return out[i].initStep < out[j].initStep })
	return out
}

// inject performs one event; returns false if it could not be performed.
func (r *supRun) inject(ev SupEvent, m *supModel) bool {
	n := r.n
	switch ev.Kind {
	case "exit":
		var target *supChildRec
		live := r.liveRecs()
		if r.c.Type == "sofo" {
			if len(live) == 0 {
				return false
			}
			target = live[ev.Child%len(live)]
		} else {
			for _, x := range live {
				if x.spec == ev.Child%len(r.c.Significant) {
					target = x
				}
			}
		}
		if target == nil {
			return false
		}
		r.e.Logf("event exit c%d reason=%s", target.spec, ev.Reason)
		if ev.Reason == "kill" {
			return n.Kill(target.pid) == nil
		}
		return n.Send(target.pid, ev.Reason) == nil
	case "disable", "enable", "start":
		r.e.Logf("event %s c%d", ev.Kind, ev.Child%len(r.c.Significant))
		return n.SendWithPriority(r.supPID, supCtl{Do: ev.Kind, Child: childName(ev.Child % len(r.c.Significant))}, gen.MessagePriorityHigh) == nil
	case "sofostart":
		r.e.Logf("event sofostart c%d", ev.Child%len(r.c.Significant))
		return n.SendWithPriority(r.supPID, supCtl{Do: "start", Child: childName(ev.Child % len(r.c.Significant))}, gen.MessagePriorityHigh) == nil
	case "stranger":
		r.e.Logf("event stranger exit reason=%s", ev.Reason)
		return n.Send(r.stranger, ev.Reason) == nil
	}
	return false
}

func supReasonClass(err error) string {
	if errors.Is(err, act.ErrSupervisorRestartsExceeded) {
		return "exceeded"
	}
	k := reasonKey(err)
	switch {
	case k == "normal" || k == "shutdown" || k == "kill" || k == "panic":
		return k
	case len(k) > 5 && k[:5] == "boom-":
		return k[5:]
	}
	return k
}

// compare checks the real supervisor against the model at quiescence (strict).
func (r *supRun) compare(m *supModel, after string) bool {
	e, c := r.e, r.c
	alive := r.supAlive()
	if alive != m.alive {
		if m.alive {
			r.mu.Lock()
			reason := r.supReason
			r.mu.Unlock()
			e.Fail(r.prop+"/supervisor-ended", "%s/%s %s: the supervisor terminated (%v) although the documented rules keep it running", c.Type, c.Strategy, after, reason)
		} else {
			e.Fail(r.prop+"/supervisor-survived", "%s/%s %s: the supervisor is still running although the documented rules end it with reason %q", c.Type, c.Strategy, after, m.reason)
		}
		return false
	}
	live := r.liveRecs()
	if !m.alive {
		if len(live) > 0 {
			e.Fail(r.prop+"/child-outlives-supervisor", "%s/%s %s: supervisor is gone but child c%d #%d is still running", c.Type, c.Strategy, after, live[0].spec, live[0].inc)
			return false
		}
		r.mu.Lock()
		got := supReasonClass(r.supReason)
		term := r.supTerm
		r.mu.Unlock()
		want := m.reason
		if want == "error" || want == "kill" || want == "panic" {
			// the child's reason as seen by the supervisor
			if want == "error" {
				want = "error"
			}
		}
		if !term {
			e.Fail(r.prop+"/supervisor-terminate-missing", "%s/%s %s: supervisor is gone but its Terminate callback never ran", c.Type, c.Strategy, after)
			return false
		}
		if got != want {
			e.Fail(r.prop+"/supervisor-reason", "%s/%s %s: supervisor terminated with reason %q, the documented rules give %q", c.Type, c.Strategy, after, got, want)
			return false
		}
		return true
	}
	snap := r.children()
	if snap == nil {
		e.Fail(r.prop+"/supervisor-unresponsive", "%s/%s %s: the running supervisor did not answer a Children() request within 5 simulated seconds", c.Type, c.Strategy, after)
		return false
	}
	if c.Type == "sofo" {
		if len(live) != len(m.inst) || len(snap) != len(m.inst) {
			e.Fail(r.prop+"/children-mismatch", "sofo/%s %s: %d children alive, Children() lists %d, the rules give %d", c.Strategy, after, len(live), len(snap), len(m.inst))
			return false
		}
		want := map[int]int{}
		for _, s := range m.inst {
			want[s]++
		}
		got := map[int]int{}
		for _, x := range live {
			got[x.spec]++
		}
		for s, k := range want {
			if got[s] != k {
				e.Fail(r.prop+"/children-mismatch", "sofo/%s %s: %d live instances of c%d, the rules give %d", c.Strategy, after, got[s], s, k)
				return false
			}
		}
	} else {
		bySpec := map[int][]*supChildRec{}
		for _, x := range live {
			bySpec[x.spec] = append(bySpec[x.spec], x)
		}
		for i := 0; i < m.n; i++ {
			if len(bySpec[i]) > 1 {
				e.Fail(r.prop+"/child-runs-twice", "%s/%s %s: %d instances of c%d are running", c.Type, c.Strategy, after, len(bySpec[i]), i)
				return false
			}
			running := len(bySpec[i]) == 1
			if running != m.running[i] {
				e.Fail(r.prop+"/children-mismatch", "%s/%s %s: child c%d running=%v, the documented rules give running=%v (model: running=%v disabled=%v)", c.Type, c.Strategy, after, i, running, m.running[i], m.running, m.disabled)
				return false
			}
			var sc *act.SupervisorChild
			for k := range snap {
				if snap[k].Spec == childName(i) {
					sc = &snap[k]
				}
			}
			if sc == nil {
				e.Fail(r.prop+"/children-mismatch", "%s/%s %s: Children() does not list spec c%d", c.Type, c.Strategy, after, i)
				return false
			}
			if (sc.PID != gen.PID{}) != running || (running && sc.PID != bySpec[i][0].pid) {
				e.Fail(r.prop+"/children-stale", "%s/%s %s: Children() reports pid %v for c%d but the live instance is %v", c.Type, c.Strategy, after, sc.PID, i, bySpec[i])
				return false
			}
			if sc.Disabled != m.disabled[i] {
				e.Fail(r.prop+"/children-mismatch", "%s/%s %s: Children() reports disabled=%v for c%d, expected %v", c.Type, c.Strategy, after, sc.Disabled, i, m.disabled[i])
				return false
			}
		}
	}
	// incarnation counts
	r.mu.Lock()
	cnt := make([]int, m.n)
	for _, x := range r.recs {
		cnt[x.spec]++
	}
	r.mu.Unlock()
	for i := 0; i < m.n; i++ {
		if cnt[i] != m.inc[i] {
			e.Fail(r.prop+"/restart-count", "%s/%s %s: child c%d has been started %d times, the documented rules give %d (all: %v vs %v)", c.Type, c.Strategy, after, i, cnt[i], m.inc[i], cnt, m.inc)
			return false
		}
	}
	return true
}

// waveOrder checks start order (spec order) and, with KeepOrder, reverse stop order
// for the children restarted between two quiescent points.
func (r *supRun) waveOrder(fromStep int, obsFrom int, after string) bool {
	if r.c.Type != "afo" && r.c.Type != "rfo" {
		return true
	}
	r.mu.Lock()
	defer r.mu.Unlock()
	var started []*supChildRec
	for _, x := range r.recs {
		if x.initStep > fromStep {
			started = append(started, x)
		}
	}
	sort.Slice(started, func(i, j int) bool { return started[i].initStep < started[j].initStep })
	for i := 1; i < len(started); i++ {
		if started[i].spec < started[i-1].spec {
			r.e.Fail(r.prop+"/start-order", "%s %s: c%d was started after c%d (children must start in spec order)", r.c.Type, after, started[i].spec, started[i-1].spec)
			return false
		}
	}
	if r.c.KeepOrder && len(r.observed) > obsFrom+1 {
		// order in which the supervisor saw its children finish: the first one is the child
		// that failed, the rest were stopped by the supervisor, last spec first
		rest := r.observed[obsFrom+1:]
		prev := 1 << 30
		for _, o := range rest {
			var spec int
			fmt.Sscanf(o, "c%d:", &spec)
			if spec > prev {
				r.e.Fail(r.prop+"/stop-order", "%s %s with KeepOrder: the supervisor saw c%d finish after c%d (children must be stopped in reverse spec order, one after the other); observed %v", r.c.Type, after, spec, prev, rest)
				return false
			}
			prev = spec
		}
	}
	return true
}
