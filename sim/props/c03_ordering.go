package props

import (
	"fmt"
	"sort"
	"sync"
	"time"

	"ergo.services/ergo/act"
	"ergo.services/ergo/gen"

	"verifsim/simkit"
)

// C03 Mailbox ordering: per-sender FIFO within a priority, strict priority classes.

type C03Op struct {
	Kind string `json:"kind"` // msg | exit | inspect | down | log | failprio (a High/Max priority send to nobody, which fails)
	// Plain (msg, prio 0): Send instead of SendWithPriority(Normal)
	Plain bool   `json:"plain,omitempty"`
	Mode  string `json:"mode"` // pid | name | alias
	Prio  int    `json:"prio"`
}

type C03Sender struct {
	Actor bool    `json:"actor"`
	Ops   []C03Op `json:"ops"`
}

type C03Case struct {
	Kind    string      `json:"kind"` // actor | sup | pool
	Senders []C03Sender `json:"senders"`
}

type c03 struct{}

func init() { Register(c03{}) }

func (c03) ID() string    { return "C03" }
func (c03) Level() string { return "exploration" }
func (c03) NewCase() any  { return &C03Case{} }
func (c03) Nontrivial() []string {
	return []string{"enqueued-while-receiver-busy", "higher-class-overtook"}
}
func (c03) Rule() string {
	return "case = one receiver (act.Actor, act.Supervisor in normal state, act.Pool for its own High/Max traffic) with a scheduling point inside every handler + 1-4 senders " +
		"(clients and actors) each sending a numbered stream with a drawn priority and addressing mode per message, mixed with trapped exit signals, inspect requests, " +
		"down notifications (monitored helpers are killed) and log messages (receiver registered as logger). Oracles over the step-stamped history: per (sender, class) the handled " +
		"sequence numbers increase; no message of a higher class whose send had returned before the previous handler returned is handled after a lower-class one. " +
		"Non-trivial = some message was enqueued while the receiver was inside a handler; distinct = distinct (schedule, history) hashes. " +
		"Scheduling points inside lib/mpsc.go Push are disabled here (an in-flight push hides later pushes from the consumer by construction of the queue)."
}
func (c03) Components() ([]string, []string) {
	return []string{"node routing and process runtime", "lib.QueueMPSC", "act.Actor / act.Supervisor / act.Pool dequeue loops"},
		[]string{"network disabled", "default logger disabled"}
}

func (c03) Generate(r *simkit.Rand, tier string) any {
	c := &C03Case{Kind: simkit.Pick(r, "actor", "actor", "actor", "sup", "pool")}
	ns := r.Range(1, 4)
	maxOps := 6
	if tier == "thorough" {
		maxOps = 10
	}
	for i := 0; i < ns; i++ {
		s := C03Sender{Actor: r.Chance(0.5)}
		for j, n := 0, r.Range(2, maxOps); j < n; j++ {
			op := C03Op{Kind: "msg", Mode: simkit.Pick(r, "pid", "name", "alias"), Prio: simkit.Pick(r, 0, 0, 0, 1, 1, 2)}
			switch r.Intn(10) {
			case 0:
				if s.Actor && c.Kind == "actor" {
					op.Kind = "exit"
				}
			case 1:
				if s.Actor {
					op.Kind = "inspect"
				}
			case 2:
				op.Kind = "down"
			case 3:
				if !s.Actor && c.Kind == "actor" {
					op.Kind = "log"
				}
			case 4:
				if s.Actor {
					op.Kind = "failprio"
					op.Prio = simkit.Pick(r, 1, 2)
				}
			}
			if op.Kind == "msg" && op.Prio == 0 && s.Actor {
				op.Plain = r.Bool()
			}
			if c.Kind == "pool" && op.Kind == "msg" && op.Prio == 0 {
				op.Prio = simkit.Pick(r, 1, 2)
			}
			s.Ops = append(s.Ops, op)
		}
		c.Senders = append(c.Senders, s)
	}
	return c
}

func (c03) Shrink(cc any) []any {
	c := cc.(*C03Case)
	var out []any
	for i := range c.Senders {
		if len(c.Senders) > 1 {
			n := cloneJSON(c)
			n.Senders = dropAt(n.Senders, i)
			out = append(out, n)
		}
	}
	for i := range c.Senders {
		for j := range c.Senders[i].Ops {
			if len(c.Senders[i].Ops) > 1 {
				n := cloneJSON(c)
				n.Senders[i].Ops = dropAt(n.Senders[i].Ops, j)
				out = append(out, n)
			}
		}
	}
	return out
}

func (c03) Sched(r *simkit.Rand, c any) simkit.SchedSpec {
	s := DefaultSched(r, 400)
	s.SkipPrefix = []string{"lib/mpsc.go"}
	return s
}

type c03Sent struct {
	sender, seq, class int
	kind               string
	ret                int // step at which the send returned
	ok                 bool
}

type c03Handled struct {
	sender, seq, class int
	start, end         int
}

func c03Class(op C03Op) int {
	switch op.Kind {
	case "exit", "inspect":
		return 3
	case "down":
		return 2
	case "log":
		return 0
	}
	return op.Prio + 1
}

type c03Payload struct {
	Sender, Seq, Class int
}

func (c03) Run(e *simkit.Env, cc any) {
	c := cc.(*C03Case)
	n := simkit.StartLocalNode(e, "c03@sim", func(o *gen.NodeOptions) { o.Log.Level = gen.LogLevelWarning })
	if n == nil {
		return
	}
	defer simkit.StopNode(e, n, false, 0)
	var mu sync.Mutex
	var sent []c03Sent
	var handled []c03Handled
	busy := false
	var rcvPID gen.PID
	var rcvAlias gen.Alias
	var helpers []gen.PID
	nDown := 0
	for _, s := range c.Senders {
		for _, op := range s.Ops {
			if op.Kind == "down" {
				nDown++
			}
		}
	}
	record := func(sender, seq, class int) func() {
		start := e.Step()
		mu.Lock()
		busy = true
		mu.Unlock()
		return func() {
			mu.Lock()
			busy = false
			handled = append(handled, c03Handled{sender, seq, class, start, e.Step()})
			mu.Unlock()
			e.Logf("handled s%d #%d class=%d", sender, seq, class)
		}
	}
	setup := func(p gen.Process) {
		a, err := p.CreateAlias()
		if err != nil {
			e.Fail("C03/unexpected-failure", "CreateAlias in a running callback: %v", err)
		}
		rcvAlias = a
		for _, h := range helpers {
			if err := p.MonitorPID(h); err != nil {
				e.Fail("C03/unexpected-failure", "MonitorPID of a live helper: %v", err)
			}
		}
	}
	onMsg := func(p gen.Process, m any) error {
		switch v := m.(type) {
		case string:
			if v == "setup" {
				setup(p)
			}
		case c03Payload:
			defer record(v.Sender, v.Seq, v.Class)()
		case gen.MessageExitPID:
			var s, q int
			fmt.Sscanf(v.Reason.Error(), "x%d-%d", &s, &q)
			defer record(s, q, 3)()
		case gen.MessageDownPID:
			var s, q int
			fmt.Sscanf(v.Reason.Error(), "kill") // reason is kill; identify by pid
			for i, h := range helpers {
				if h == v.PID {
					s, q = -1, i
				}
			}
			defer record(s, q, 2)()
		}
		return nil
	}
	rh := &Hooks{Name: "rcv", Env: e, Slow: true, Trap: true}
	rh.Message = func(p *Probe, from gen.PID, m any) error { return onMsg(p, m) }
	rh.Inspect = func(p *Probe, from gen.PID, item ...string) map[string]string {
		var s, q int
		if len(item) > 0 {
			fmt.Sscanf(item[0], "%d-%d", &s, &q)
		}
		defer record(s, q, 3)()
		return map[string]string{"ok": "1"}
	}
	rh.Log = func(p *Probe, m gen.MessageLog) error {
		var s, q int
		if len(m.Args) == 2 {
			s, _ = m.Args[0].(int)
			q, _ = m.Args[1].(int)
			defer record(s, q, 0)()
		}
		return nil
	}
	// helpers first (their pids are needed in setup)
	for i := 0; i < nDown; i++ {
		hp, err := n.Spawn(ProbeFactory(&Hooks{Name: fmt.Sprintf("h%d", i)}), gen.ProcessOptions{})
		if err != nil {
			e.Infra("spawn helper: " + err.Error())
			return
		}
		helpers = append(helpers, hp)
	}
	var err error
	switch c.Kind {
	case "actor":
		rcvPID, err = n.SpawnRegister("rcv", ProbeFactory(rh), gen.ProcessOptions{})
	case "sup":
		rh.SupInit = func(p *ProbeSup, args ...any) (act.SupervisorSpec, error) {
			return act.SupervisorSpec{Type: act.SupervisorTypeOneForOne,
				Children: []act.SupervisorChildSpec{{Name: "c", Factory: ProbeFactory(&Hooks{Name: "c"})}}}, nil
		}
		rh.SupMessage = func(p *ProbeSup, from gen.PID, m any) error { return onMsg(p, m) }
		rcvPID, err = n.SpawnRegister("rcv", ProbeSupFactory(rh), gen.ProcessOptions{})
	case "pool":
		rh.PoolInit = func(p *ProbePool, args ...any) (act.PoolOptions, error) {
			return act.PoolOptions{PoolSize: 1, WorkerFactory: ProbeFactory(&Hooks{Name: "w"})}, nil
		}
		rh.PoolMessage = func(p *ProbePool, from gen.PID, m any) error { return onMsg(p, m) }
		rcvPID, err = n.SpawnRegister("rcv", ProbePoolFactory(rh), gen.ProcessOptions{})
	}
	if err != nil {
		e.Infra("spawn receiver: " + err.Error())
		return
	}
	if err := n.SendWithPriority(rcvPID, "setup", gen.MessagePriorityMax); err != nil {
		e.Infra("setup: " + err.Error())
		return
	}
	e.Settle(time.Millisecond)
	if c.Kind == "actor" {
		if err := n.LoggerAddPID(rcvPID, "c03log", gen.LogLevelWarning); err != nil {
			e.Fail("C03/unexpected-failure", "LoggerAddPID: %v", err)
			return
		}
	}
	var downMu sync.Mutex
	nextHelper := 0

	runOps := func(si int, ops []C03Op, p *Probe) {
		for j, op := range ops {
			class := c03Class(op)
			pl := c03Payload{Sender: si, Seq: j, Class: class}
			var to any
			switch op.Mode {
			case "name":
				to = gen.Atom("rcv")
			case "alias":
				to = rcvAlias
			default:
				to = rcvPID
			}
			var err error
			sender, seq := si, j
			switch op.Kind {
			case "failprio":
				// a send with a raised priority that fails must leave no trace in the sender
				if ferr := p.SendWithPriority(gen.Atom("nobody-c03"), pl, prioOf(op.Prio)); ferr == nil {
					e.Fail("C03/unexpected-failure", "a send to an unregistered name succeeded")
					return
				}
				e.Probe("failed-priority-send")
				continue
			case "msg":
				if p != nil && op.Plain && op.Prio == 0 {
					err = p.Send(to, pl)
				} else if p != nil {
					err = p.SendWithPriority(to, pl, prioOf(op.Prio))
				} else {
					err = n.SendWithPriority(to, pl, prioOf(op.Prio))
				}
			case "exit":
				err = p.SendExit(rcvPID, fmt.Errorf("x%d-%d", si, j))
			case "inspect":
				// Inspect returns after the reply: note the moment the request is known to be queued
				_, err = p.Inspect(rcvPID, fmt.Sprintf("%d-%d", si, j))
			case "down":
				downMu.Lock()
				hi := nextHelper
				nextHelper++
				downMu.Unlock()
				sender, seq = -1, hi
				err = n.Kill(helpers[hi])
			case "log":
				n.Log().Warning("L %d %d", si, j)
			}
			mu.Lock()
			if busy {
				e.Probe("enqueued-while-receiver-busy")
			}
			// an inspect has already been handled when it returns: it cannot serve as "was queued before"
			ret := e.Step()
			if op.Kind == "inspect" {
				ret = 1 << 30
			}
			sent = append(sent, c03Sent{sender, seq, class, op.Kind, ret, err == nil})
			mu.Unlock()
			e.Logf("s%d #%d %s class=%d -> %v", si, j, op.Kind, class, err)
			if err != nil {
				e.Fail("C03/unexpected-failure", "%s #%d from sender %d to a live unbounded receiver failed: %v", op.Kind, j, si, err)
				return
			}
		}
	}
	for i, s := range c.Senders {
		i, s := i, s
		who := fmt.Sprintf("s%d", i)
		if !s.Actor {
			e.Go(who, func() { runOps(i, s.Ops, nil) })
			continue
		}
		sh := &Hooks{Name: who, Env: e, Trap: true}
		done := make(chan struct{})
		sh.Message = func(p *Probe, from gen.PID, m any) error {
			if m == "go" {
				runOps(i, s.Ops, p)
				close(done)
			}
			return nil
		}
		spid, err := n.Spawn(ProbeFactory(sh), gen.ProcessOptions{})
		if err != nil {
			e.Infra("spawn sender: " + err.Error())
			return
		}
		e.Go(who+"-kick", func() {
			n.Send(spid, "go")
			e.WaitChan(done, 10*time.Minute)
		})
	}
	if !e.WaitClients(20 * time.Minute) {
		e.Fail("C03/client-stuck", "a sender did not finish")
		return
	}
	e.Settle(10 * time.Second)
	if e.Failed() {
		return
	}
	mu.Lock()
	defer mu.Unlock()
	// index of handling per message
	pos := map[[2]int]int{}
	for i, h := range handled {
		pos[[2]int{h.sender, h.seq}] = i
	}
	for _, s := range sent {
		if _, ok := pos[[2]int{s.sender, s.seq}]; !ok && s.ok {
			e.Fail("C03/not-handled", "%s #%d of sender %d (class %d) was accepted but never handled", s.kind, s.seq, s.sender, s.class)
			return
		}
	}
	// per (sender, class) FIFO
	last := map[[2]int]int{}
	for _, h := range handled {
		if h.sender < 0 {
			continue
		}
		k := [2]int{h.sender, h.class}
		if prev, ok := last[k]; ok && h.seq < prev {
			e.Fail("C03/fifo", "%s receiver handled #%d of sender %d after #%d although both have class %d", c.Kind, h.seq, h.sender, prev, h.class)
			return
		}
		last[k] = h.seq
	}
	// priority classes
	sort.Slice(sent, func(i, j int) bool { return sent[i].ret < sent[j].ret })
	for i := 1; i < len(handled); i++ {
		m := handled[i]
		prevEnd := handled[i-1].end
		for _, x := range sent {
			if x.ret >= prevEnd {
				break
			}
			if !x.ok || x.class <= m.class {
				continue
			}
			if xi, ok := pos[[2]int{x.sender, x.seq}]; ok && xi > i {
				e.Fail("C03/class-order", "%s receiver took #%d of sender %d (class %d) at step %d although %s #%d of sender %d (class %d) had been queued since step %d, before the previous handler returned at step %d",
					c.Kind, m.seq, m.sender, m.class, m.start, x.kind, x.seq, x.sender, x.class, x.ret, prevEnd)
				return
			}
		}
		if m.class > handled[i-1].class && m.start > 0 {
			e.Probe("higher-class-overtook")
		}
	}
}
