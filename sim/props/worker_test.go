package props

import (
	"bufio"
	"encoding/binary"
	"encoding/json"
	"fmt"
	"os"
	"os/signal"
	"regexp"
	"runtime"
	"strings"
	"testing"
	"time"

	"verifsim/simkit"
)

// Job is the unit of work the driver hands to one worker process.
type Job struct {
	Mode        string  `json:"mode"` // explore | replay | minimize
	Property    string  `json:"property"`
	Tier        string  `json:"tier"`
	VerifSeed   uint64  `json:"verif_seed"`
	Worker      int     `json:"worker"`
	Workers     int     `json:"workers"`
	BudgetS     float64 `json:"budget_s"`
	MaxRuns     int     `json:"max_runs"`
	MaxFailures int     `json:"max_failures"`
	DetEvery    int     `json:"det_every"`
	Out         string  `json:"out"`
	Hashes      string  `json:"hashes"`
	File        string  `json:"file"` // replay / minimize input
	FileOut     string  `json:"file_out"`
	DumpRuns    string  `json:"dump_runs"` // selftest: one line per run with its hashes
	StartI      int     `json:"start_i"`   // first iteration (a successor of a worker that stopped early continues its sequence)
	Known       []Known `json:"known"`     // open known findings: counted, not reported as failures
	Current     string  `json:"current"`   // file that always holds the run in progress (for hang reports)
	WatchdogS   int     `json:"watchdog_s"`
}

// Known is an open known finding handed to the worker by the driver.
type Known struct {
	Class  string `json:"class"`
	Detail string `json:"detail_regexp"`
}

// Summary is the aggregate a worker reports at the end of a job.
type Summary struct {
	Type        string            `json:"type"`
	Worker      int               `json:"worker"`
	Runs        int               `json:"runs"`
	Steps       int64             `json:"steps"`
	SimTimeS    float64           `json:"sim_time_s"`
	WallS       float64           `json:"wall_s"`
	Nontrivial  int               `json:"nontrivial"`
	Probes      map[string]int    `json:"probes"`
	Faults      map[string]int    `json:"faults"`
	Modes       map[string]int    `json:"modes"`
	Labels      map[string]int    `json:"labels"`
	Passthrough int64             `json:"passthrough"`
	Tasks       int64             `json:"tasks"`
	MaxSteps    int               `json:"max_steps"`
	DetChecked  int               `json:"det_checked"`
	DetMismatch int               `json:"det_mismatch"`
	Samples     []json.RawMessage `json:"samples"`
	Failures    int               `json:"failures"`
	KnownSeen   map[string]int    `json:"known_seen"`
	// NextI: the iteration a successor of this worker continues with; Poisoned: the worker stopped
	// early only because a run (a known finding) left goroutines behind that would disturb later runs
	NextI    int  `json:"next_i"`
	Poisoned bool `json:"poisoned"`
}

var activeRun struct {
	desc string
}

var watchdogLimit = 60

func TestMain(m *testing.M) {
	// create the os/signal loop goroutine outside of any bubble
	c := make(chan os.Signal, 1)
	signal.Notify(c, os.Interrupt)
	signal.Stop(c)
	// real-time watchdog: no scheduler progress for 60 s while a job runs
	go func() {
		last := simkit.Progress.Load()
		idle := 0
		for {
			time.Sleep(time.Second)
			cur := simkit.Progress.Load()
			if cur != last || activeRun.desc == "" {
				last = cur
				idle = 0
				continue
			}
			idle++
			if idle >= watchdogLimit {
				buf := make([]byte, 1<<20)
				n := runtime.Stack(buf, true)
				fmt.Fprintf(os.Stderr, "WATCHDOG: no scheduler progress for %ds in %s\n%s\n", watchdogLimit, activeRun.desc, buf[:n])
				os.Exit(3)
			}
		}
	}()
	os.Exit(m.Run())
}

func runSeedFor(verifSeed uint64, prop string, idx uint64) uint64 {
	return simkit.Mix(simkit.MixString(verifSeed, prop), idx)
}

func schedFor(p Property, r *simkit.Rand, c any, lenHint int) simkit.SchedSpec {
	if st, ok := p.(SchedTuner); ok {
		return st.Sched(r, c)
	}
	return DefaultSched(r, lenHint)
}

func runOne(t *testing.T, p Property, c any, spec simkit.SchedSpec, runSeed uint64) simkit.Result {
	res := simkit.RunBubble(t, spec, runSeed, func(e *simkit.Env) { p.Run(e, c) })
	if j, ok := p.(ResultJudge); ok {
		j.Judge(c, &res)
	}
	if res.Violation == nil && res.Infra == "" && res.FrameworkPanic != "" {
		// the workload makes legal calls only: a panic raised inside the framework by one of them
		// (not recovered by the framework, so in a caller's goroutine) is not a behaviour any
		// property allows for
		res.Violation = &simkit.Violation{Class: p.ID() + "/framework-panic", Detail: "a call of the public API panicked inside the framework: " + res.FrameworkPanic, Step: res.Steps}
	}
	if res.Violation == nil && res.Infra == "" {
		if res.OverBudget {
			res.Infra = fmt.Sprintf("step budget exceeded after %d decisions", res.Steps)
		} else if res.Deadlock != "" {
			res.Infra = "bubble deadlock: " + res.Deadlock
		}
	}
	return res
}

type outWriter struct {
	f *os.File
	w *bufio.Writer
}

func (o *outWriter) emit(v any) {
	b, _ := json.Marshal(v)
	o.w.Write(b)
	o.w.WriteByte('\n')
	o.w.Flush()
}

func TestWorker(t *testing.T) {
	js := os.Getenv("VERIF_JOB")
	if js == "" {
		t.Skip("no VERIF_JOB")
	}
	var job Job
	if err := json.Unmarshal([]byte(js), &job); err != nil {
		t.Fatalf("bad job: %v", err)
	}
	if job.WatchdogS > 0 {
		watchdogLimit = job.WatchdogS
	}
	p := Lookup(job.Property)
	if p == nil {
		fmt.Fprintf(os.Stderr, "unknown property %s\n", job.Property)
		os.Exit(2)
	}
	f, err := os.Create(job.Out)
	if err != nil {
		fmt.Fprintln(os.Stderr, err)
		os.Exit(2)
	}
	out := &outWriter{f: f, w: bufio.NewWriter(f)}
	defer f.Close()
	switch job.Mode {
	case "explore":
		explore(t, p, job, out)
	case "replay":
		replay(t, p, job, out)
	case "minimize":
		minimize(t, p, job, out)
	default:
		fmt.Fprintf(os.Stderr, "unknown mode %s\n", job.Mode)
		os.Exit(2)
	}
}

func explore(t *testing.T, p Property, job Job, out *outWriter) {
	start := time.Now()
	sum := Summary{Type: "summary", Worker: job.Worker, Probes: map[string]int{}, Faults: map[string]int{},
		Modes: map[string]int{}, Labels: map[string]int{}, KnownSeen: map[string]int{}}
	knownRe := make([]*regexp.Regexp, len(job.Known))
	for i, k := range job.Known {
		knownRe[i] = regexp.MustCompile(k.Detail)
	}
	var hashes []uint64
	var dump *os.File
	if job.DumpRuns != "" {
		dump, _ = os.Create(job.DumpRuns)
		defer dump.Close()
	}
	nontrivialProbes := p.Nontrivial()
	lenHint := 300
	if job.MaxFailures <= 0 {
		job.MaxFailures = 2
	}
	for i := job.StartI; ; i++ {
		sum.NextI = i + 1
		if job.MaxRuns > 0 && i >= job.MaxRuns {
			break
		}
		if time.Since(start).Seconds() > job.BudgetS {
			break
		}
		idx := uint64(i*job.Workers + job.Worker)
		runSeed := runSeedFor(job.VerifSeed, job.Property, idx)
		r := simkit.NewRand(runSeed)
		c := p.Generate(r.Derive("case"), job.Tier)
		c = fixedCase(p, c)
		spec := schedFor(p, r.Derive("sched"), c, lenHint)
		activeRun.desc = fmt.Sprintf("%s seed=%d idx=%d", job.Property, job.VerifSeed, idx)
		if job.Current != "" {
			cb, _ := json.Marshal(c)
			fb, _ := json.Marshal(Failure{Property: job.Property, VerifSeed: job.VerifSeed, RunIndex: idx, RunSeed: runSeed, Tier: job.Tier,
				Case: cb, Sched: spec, Violation: &simkit.Violation{Class: job.Property + "/hang",
					Detail: "the run stopped making progress: a goroutine of the system is blocked for ever outside the simulated clock (self-deadlock on a lock) and an API call never returns"}})
			os.WriteFile(job.Current, fb, 0o644)
		}
		res := runOne(t, p, c, spec, runSeed)
		if dbg := os.Getenv("VERIF_TRACE_IDX"); dbg != "" && dbg == fmt.Sprint(idx) {
			fmt.Fprintln(os.Stderr, "TRACE", idx, strings.Join(traceStrings(&simkit.Result{Trace: firstN(res.Trace, 70)}, 70), " | "))
		}
		activeRun.desc = ""
		if i%8 == 7 {
			runtime.GC()
		}
		sum.Runs++
		if dump != nil {
			// the run as a replayable file (case + the scheduler specification as drawn): the self-test
			// executes it once more alone in a fresh process and compares the hashes
			cbs, _ := json.Marshal(c)
			fbs, _ := json.Marshal(Failure{Property: job.Property, VerifSeed: job.VerifSeed, RunIndex: idx, RunSeed: runSeed, Tier: job.Tier, Case: cbs, Sched: spec})
			os.WriteFile(fmt.Sprintf("%s.spec%d", job.DumpRuns, idx), fbs, 0o644)
			fmt.Fprintf(dump, "%d %016x %016x %d %v\n", idx, res.SchedHash, res.EventHash, res.Steps, res.Violation != nil)
			os.WriteFile(fmt.Sprintf("%s.ev%d", job.DumpRuns, idx), []byte(strings.Join(res.Events, "\n")), 0o644)
		}
		sum.Steps += int64(res.Steps)
		sum.SimTimeS += res.SimTime.Seconds()
		sum.Passthrough += int64(res.Passthrough)
		sum.Tasks += int64(res.Tasks)
		sum.Modes[spec.Mode]++
		if res.Steps > sum.MaxSteps {
			sum.MaxSteps = res.Steps
		}
		lenHint = (lenHint*7 + res.Steps) / 8
		for k, v := range res.Probes {
			sum.Probes[k] += v
		}
		for k, v := range res.Faults {
			sum.Faults[k] += v
		}
		if i < 50 {
			for k, v := range res.Labels {
				sum.Labels[k] += v
			}
		}
		nt := len(nontrivialProbes) == 0
		for _, k := range nontrivialProbes {
			if res.Probes[k] > 0 {
				nt = true
				break
			}
		}
		if nt {
			sum.Nontrivial++
			hashes = append(hashes, res.SchedHash^res.EventHash)
		}
		if len(sum.Samples) < 2 && job.Worker == 0 {
			cb, _ := json.Marshal(c)
			sample := map[string]any{"run_index": idx, "run_seed": runSeed, "case": json.RawMessage(cb), "sched_mode": spec.Mode,
				"steps": res.Steps, "first_decisions": traceStrings(&simkit.Result{Trace: firstN(res.Trace, 40)}, 40),
				"history": firstNs(res.Events, 40), "probes": res.Probes, "faults": res.Faults}
			sb, _ := json.Marshal(sample)
			sum.Samples = append(sum.Samples, sb)
		}
		poisoned := res.Deadlock != ""
		if res.Infra != "" {
			cb, _ := json.Marshal(c)
			out.emit(map[string]any{"type": "infra", "run_index": idx, "run_seed": runSeed, "msg": res.Infra,
				"case": json.RawMessage(cb), "sched": spec, "trace": traceStrings(&res, 60), "events": tail(res.Events, 60)})
			sum.Failures++
			break
		}
		if res.Violation != nil {
			isKnown := false
			for ki, k := range job.Known {
				if k.Class == res.Violation.Class && knownRe[ki].MatchString(res.Violation.Detail) {
					sum.KnownSeen[k.Class+"|"+k.Detail]++
					isKnown = true
					break
				}
			}
			if isKnown {
				if poisoned {
					sum.Poisoned = true
					break
				}
				continue
			}
			cb, _ := json.Marshal(c)
			rs := spec
			rs.Mode = "replay"
			rs.Decisions = res.Decisions
			out.emit(map[string]any{"type": "failure", "failure": Failure{Property: job.Property, VerifSeed: job.VerifSeed, RunIndex: idx,
				RunSeed: runSeed, Tier: job.Tier, Violation: res.Violation, Case: cb, Sched: rs, Steps: res.Steps,
				Trace: traceStrings(&res, 80), Events: tail(res.Events, 80)}})
			sum.Failures++
			if sum.Failures >= job.MaxFailures || poisoned {
				break
			}
			continue
		}
		if poisoned {
			sum.Poisoned = true
			break
		}
		// determinism spot check: same seed, same process, must give the same schedule and history
		if job.DetEvery > 0 && i%job.DetEvery == 0 {
			r2 := simkit.NewRand(runSeed)
			c2 := p.Generate(r2.Derive("case"), job.Tier)
			c2 = fixedCase(p, c2)
			spec2 := schedFor(p, r2.Derive("sched"), c2, spec.LenHint)
			spec2.LenHint = spec.LenHint
			res2 := runOne(t, p, c2, spec2, runSeed)
			sum.DetChecked++
			if res2.SchedHash != res.SchedHash || res2.EventHash != res.EventHash || res2.Steps != res.Steps {
				sum.DetMismatch++
				out.emit(map[string]any{"type": "infra", "run_index": idx, "run_seed": runSeed,
					"msg": fmt.Sprintf("determinism check failed: steps %d/%d sched %x/%x events %x/%x; first divergence: %s",
						res.Steps, res2.Steps, res.SchedHash, res2.SchedHash, res.EventHash, res2.EventHash, firstDivergence(&res, &res2))})
				break
			}
		}
	}
	sum.WallS = time.Since(start).Seconds()
	if job.Hashes != "" {
		hb := make([]byte, 8*len(hashes))
		for i, h := range hashes {
			binary.LittleEndian.PutUint64(hb[i*8:], h)
		}
		os.WriteFile(job.Hashes, hb, 0o644)
	}
	// keep only the most frequent labels
	out.emit(sum)
}

func firstN(tr []simkit.Decision, n int) []simkit.Decision {
	if len(tr) > n {
		return tr[:n]
	}
	return tr
}

func firstNs(xs []string, n int) []string {
	if len(xs) > n {
		return xs[:n]
	}
	return xs
}

func firstDivergence(a, b *simkit.Result) string {
	for i := 0; i < len(a.Trace) && i < len(b.Trace); i++ {
		if a.Trace[i] != b.Trace[i] {
			return fmt.Sprintf("decision %d: %v vs %v", i, a.Trace[i], b.Trace[i])
		}
	}
	for i := 0; i < len(a.Events) && i < len(b.Events); i++ {
		if a.Events[i] != b.Events[i] {
			return fmt.Sprintf("event %d: %q vs %q", i, a.Events[i], b.Events[i])
		}
	}
	return fmt.Sprintf("lengths: trace %d/%d events %d/%d", len(a.Trace), len(b.Trace), len(a.Events), len(b.Events))
}

func loadFailure(path string) (*Failure, error) {
	b, err := os.ReadFile(path)
	if err != nil {
		return nil, err
	}
	var f Failure
	if err := json.Unmarshal(b, &f); err != nil {
		return nil, err
	}
	return &f, nil
}

func decodeCase(p Property, raw json.RawMessage) (any, error) {
	c := p.NewCase()
	if err := json.Unmarshal(raw, c); err != nil {
		return nil, err
	}
	return c, nil
}

// replay runs a replay file once and reports what happened.
func replay(t *testing.T, p Property, job Job, out *outWriter) {
	fl, err := loadFailure(job.File)
	if err != nil {
		out.emit(map[string]any{"type": "infra", "msg": "cannot load replay file: " + err.Error()})
		return
	}
	c, err := decodeCase(p, fl.Case)
	if err != nil {
		out.emit(map[string]any{"type": "infra", "msg": "cannot decode case: " + err.Error()})
		return
	}
	activeRun.desc = "replay " + job.File
	res := runOne(t, p, c, fl.Sched, fl.RunSeed)
	if os.Getenv("VERIF_TRACE_IDX") != "" {
		fmt.Fprintln(os.Stderr, "TRACE replay", strings.Join(traceStrings(&simkit.Result{Trace: firstN(res.Trace, 70)}, 70), " | "))
	}
	activeRun.desc = ""
	rec := map[string]any{"type": "replay", "steps": res.Steps, "violation": res.Violation, "infra": res.Infra,
		"hashes":   fmt.Sprintf("%016x %016x %d %v", res.SchedHash, res.EventHash, res.Steps, res.Violation != nil),
		"expected": fl.Violation, "trace": traceStrings(&res, 80), "events": tail(res.Events, 80)}
	rec["reproduced"] = res.Violation != nil && fl.Violation != nil && res.Violation.Class == fl.Violation.Class &&
		res.Violation.Detail == fl.Violation.Detail
	rec["same_class"] = res.Violation != nil && fl.Violation != nil && res.Violation.Class == fl.Violation.Class
	out.emit(rec)
}

func trimDecisions(d []int32) []int32 {
	n := len(d)
	for n > 0 && d[n-1] < 0 {
		n--
	}
	return d[:n]
}

// minimize shrinks the case and the schedule of a failure while the same
// violation class is reported, then writes the replay file.
func minimize(t *testing.T, p Property, job Job, out *outWriter) {
	fl, err := loadFailure(job.File)
	if err != nil {
		out.emit(map[string]any{"type": "infra", "msg": "cannot load failure: " + err.Error()})
		return
	}
	c, err := decodeCase(p, fl.Case)
	if err != nil {
		out.emit(map[string]any{"type": "infra", "msg": "cannot decode case: " + err.Error()})
		return
	}
	class := fl.Violation.Class
	start := time.Now()
	reruns := 0
	budget := func() bool { return reruns < 600 && time.Since(start) < 90*time.Second }
	activeRun.desc = "minimize " + job.File
	defer func() { activeRun.desc = "" }()
	var lastRes simkit.Result
	fails := func(c any, d []int32) bool {
		reruns++
		spec := fl.Sched
		spec.Mode = "replay"
		spec.Decisions = d
		res := runOne(t, p, c, spec, fl.RunSeed)
		if res.Violation != nil && res.Violation.Class == class {
			lastRes = res
			return true
		}
		return false
	}
	D := append([]int32(nil), fl.Sched.Decisions...)
	if !fails(c, D) {
		out.emit(map[string]any{"type": "infra", "msg": fmt.Sprintf("failure does not reproduce in the minimiser (class %s, run_index %d)", class, fl.RunIndex)})
		return
	}
	// 1. case shrinking
	for progress := true; progress && budget(); {
		progress = false
		for _, cand := range p.Shrink(c) {
			if !budget() {
				break
			}
			if fails(cand, D) {
				c = cand
				progress = true
				break
			}
			if fails(cand, nil) {
				c = cand
				D = nil
				progress = true
				break
			}
		}
	}
	// 2. schedule shrinking
	if len(D) > 0 && budget() && fails(c, nil) {
		D = nil
	}
	if len(D) > 0 {
		// shortest failing prefix (binary search, then verify)
		lo, hi := 0, len(D)
		for lo < hi && budget() {
			mid := (lo + hi) / 2
			if fails(c, D[:mid]) {
				hi = mid
			} else {
				lo = mid + 1
			}
		}
		if hi < len(D) && fails(c, D[:hi]) {
			D = append([]int32(nil), D[:hi]...)
		}
		for _, chunk := range []int{256, 64, 16, 4, 1} {
			for i := 0; i < len(D) && budget(); i += chunk {
				j := i + chunk
				if j > len(D) {
					j = len(D)
				}
				cand := append([]int32(nil), D...)
				changed := false
				for k := i; k < j; k++ {
					if cand[k] != -1 {
						cand[k] = -1
						changed = true
					}
				}
				if changed && fails(c, cand) {
					D = cand
				}
			}
		}
		D = trimDecisions(D)
	}
	// final run for the record
	if !fails(c, D) {
		out.emit(map[string]any{"type": "infra", "msg": "minimised failure stopped reproducing"})
		return
	}
	cb, _ := json.Marshal(c)
	spec := fl.Sched
	spec.Mode = "replay"
	spec.Decisions = D
	nf := Failure{Property: fl.Property, VerifSeed: fl.VerifSeed, RunIndex: fl.RunIndex, RunSeed: fl.RunSeed, Tier: fl.Tier,
		Violation: lastRes.Violation, Case: cb, Sched: spec, Steps: lastRes.Steps, Minimised: true, Reruns: reruns,
		Trace: traceStrings(&lastRes, 120), Events: tail(lastRes.Events, 120),
		Note: fmt.Sprintf("original run: %d decisions; schedule entries are task ids per decision, -1 = default policy (continue the running goroutine, else lowest id)", fl.Steps)}
	b, _ := json.MarshalIndent(nf, "", " ")
	if err := os.WriteFile(job.FileOut, b, 0o644); err != nil {
		out.emit(map[string]any{"type": "infra", "msg": err.Error()})
		return
	}
	preempt := 0
	for _, d := range D {
		if d >= 0 {
			preempt++
		}
	}
	out.emit(map[string]any{"type": "minimized", "file": job.FileOut, "reruns": reruns, "decisions": len(D), "forced": preempt,
		"violation": lastRes.Violation})
}

// TestMeta writes the static description of a property for the driver.
func TestMeta(t *testing.T) {
	id := os.Getenv("VERIF_META")
	if id == "" {
		t.Skip("no VERIF_META")
	}
	p := Lookup(id)
	if p == nil {
		os.WriteFile(os.Getenv("VERIF_META_OUT"), []byte("{}"), 0o644)
		return
	}
	real, stub := p.Components()
	b, _ := json.Marshal(map[string]any{"level": p.Level(), "rule": p.Rule(), "nontrivial": p.Nontrivial(), "real": real, "stub": stub})
	os.WriteFile(os.Getenv("VERIF_META_OUT"), b, 0o644)
}

// fixedCase is a debugging aid: with VERIF_FIXED_CASE=<file> every run uses
// the case in that file and only the schedule varies.
func fixedCase(p Property, c any) any {
	fc := os.Getenv("VERIF_FIXED_CASE")
	if fc == "" {
		return c
	}
	b, err := os.ReadFile(fc)
	if err != nil {
		fmt.Fprintln(os.Stderr, err)
		os.Exit(2)
	}
	nc := p.NewCase()
	if err := json.Unmarshal(b, nc); err != nil {
		fmt.Fprintln(os.Stderr, err)
		os.Exit(2)
	}
	return nc
}
