package props

import (
	"errors"
	"fmt"
	"reflect"
	"strings"
	"sync"
	"time"

	"ergo.services/ergo/gen"
	"ergo.services/ergo/net/edf"

	"verifsim/simkit"
)

// Shared workload of C12 (remote delivery integrity) and C13 (network FIFO per process pair):
// two real nodes over the simulated TCP network.

type NDOp struct {
	Kind string `json:"kind"` // send | important | call | callimportant
	To   int    `json:"to"`   // receiver index (len(receivers) = a missing process)
	Mode string `json:"mode"` // pid | name | alias
	Size int    `json:"size"` // payload size class
	Typ  string `json:"typ"`  // bytes | string | struct | map | int
	// ErrReply (call, callimportant): the receiver answers with SendResponseError and an error of its own
	ErrReply bool `json:"err_reply,omitempty"`
	// PauseNs: the sender lets this much simulated time pass before the operation (values around
	// the 300 ns flush latency of the link writer make a timer flush coincide with the write)
	PauseNs int `json:"pause_ns,omitempty"`
}

type NDSender struct {
	Compress  string `json:"compress"` // "" | gzip | zlib | lzw
	Level     int    `json:"level"`
	Threshold int    `json:"threshold"`
	NoOrder   bool   `json:"no_order"` // KeepNetworkOrder(false): control group for C13
	Filler    int    `json:"filler"`   // processes spawned before this sender (varies the pid residue)
	Ops       []NDOp `json:"ops"`
}

type NDFault struct {
	Kind   string `json:"kind"`    // cutlink | stall
	AfterN int    `json:"after_n"` // after that many operations have been issued in total
	Link   int    `json:"link"`
	Ms     int    `json:"ms"`
}

type NDCase struct {
	Pool int `json:"pool"`
	// PoolA (> 0): the dialling node is configured with another pool size than the accepting one
	// (the acceptor's size decides how many links the connection gets)
	PoolA int `json:"pool_a,omitempty"`
	// DialBack: the connection is opened by the receivers' node, so the senders write on the accepting
	// side of every link (which does not re-dial a lost link: the other side does and joins it again)
	DialBack  bool       `json:"dial_back,omitempty"`
	Segment   bool       `json:"segment"`
	Skew      []int      `json:"skew"`
	MaxSizeB  int        `json:"max_size_b"` // MaxMessageSize of the receiving node
	Receivers []int      `json:"receivers"`  // mailbox size per receiver (0 unbounded)
	RFiller   int        `json:"r_filler"`
	Senders   []NDSender `json:"senders"`
	Faults    []NDFault  `json:"faults"`
}

type ndMsg struct {
	ID   int
	Data any
}

type ndStruct struct {
	A int64
	B string
	C []byte
	D map[string]int
	E []ndInner
}

type ndInner struct {
	X float64
	Y gen.Atom
}

func init() {
	for _, v := range []any{ndInner{}, ndStruct{}, ndMsg{}} {
		if err := edf.RegisterTypeOf(v); err != nil && err != gen.ErrTaken {
			panic(err)
		}
	}
}

var ndSizes = []int{0, 1, 7, 8, 9, 100, 4095, 4096, 4097, 8191, 8192, 8193, 65535, 65536, 65537, 200000}

// ndPayload is a pure function of the message id: the receiver recomputes it.
func ndPayload(id int, typ string, size int) any {
	fill := func(n int) []byte {
		b := make([]byte, n)
		x := uint32(id*2654435761 + 12345)
		for i := range b {
			x = x*1664525 + 1013904223
			// compressible but not trivial
			b[i] = byte('a' + (x>>24)%7)
		}
		return b
	}
	switch typ {
	case "int":
		return int64(id) * 1000003
	case "string":
		if size > 65535 {
			size = 65535 // longest string EDF can represent
		}
		return string(fill(size))
	case "struct":
		n := size
		if n > 20000 {
			n = 20000
		}
		s := ndStruct{A: int64(id), B: string(fill(n % 97)), C: fill(n), D: map[string]int{"id": id, "n": n}}
		for i := 0; i < n%5; i++ {
			s.E = append(s.E, ndInner{X: float64(id) + float64(i)/4, Y: gen.Atom(fmt.Sprintf("atom%d", i))})
		}
		return s
	case "map":
		m := map[string]any{}
		for i := 0; i < size%20+1; i++ {
			m[fmt.Sprintf("k%d", i)] = int64(id + i)
		}
		return m
	}
	return fill(size)
}

func genNDCase(r *simkit.Rand, tier string, fifo bool) *NDCase {
	c := &NDCase{Pool: r.Range(1, 3), Segment: r.Chance(0.7), RFiller: r.Range(0, 7)}
	if r.Chance(0.4) {
		c.PoolA = r.Range(1, 4)
	}
	c.DialBack = r.Chance(0.35)
	for i := 0; i < 4; i++ {
		c.Skew = append(c.Skew, simkit.Pick(r, 1, 1, 2, 10, 100, 1000))
	}
	if !fifo && r.Chance(0.3) {
		c.MaxSizeB = simkit.Pick(r, 5000, 70000)
	}
	for i, n := 0, r.Range(1, 3); i < n; i++ {
		mb := 0
		if !fifo {
			mb = simkit.Pick(r, 0, 0, 0, 1, 2)
		}
		c.Receivers = append(c.Receivers, mb)
	}
	maxOps := 6
	if tier == "thorough" {
		maxOps = 12
	}
	if fifo {
		maxOps *= 3
	}
	for i, n := 0, r.Range(1, 4); i < n; i++ {
		s := NDSender{Filler: r.Range(0, 9)}
		if r.Chance(0.4) {
			s.Compress = simkit.Pick(r, "gzip", "zlib", "lzw")
			s.Level = simkit.Pick(r, 0, 1, 2)
			s.Threshold = simkit.Pick(r, 1024, 1024, 4096, 100000)
		}
		if fifo && r.Chance(0.1) {
			s.NoOrder = true
		}
		for j, m := 0, r.Range(2, maxOps); j < m; j++ {
			op := NDOp{Kind: "send", To: r.Intn(len(c.Receivers)), Mode: simkit.Pick(r, "pid", "pid", "name", "alias"),
				Typ: simkit.Pick(r, "bytes", "bytes", "string", "struct", "map", "int")}
			op.Size = ndSizes[r.Intn(len(ndSizes))]
			if fifo {
				op.Size = ndSizes[r.Intn(9)]
				if r.Chance(0.1) {
					op.Size = 65537
				}
				if r.Chance(0.3) {
					// the same priority class through the other API: the order within the stream is the same promise
					op.Kind = "sendprio"
				}
				if r.Chance(0.25) {
					op.PauseNs = simkit.Pick(r, 300, 300, 299, 301, 3000)
				}
			} else {
				op.Kind = simkit.Pick(r, "send", "send", "important", "important", "call", "callimportant")
				op.ErrReply = (op.Kind == "call" || op.Kind == "callimportant") && r.Chance(0.3)
				if r.Chance(0.1) {
					op.To = len(c.Receivers) // nobody
				}
			}
			s.Ops = append(s.Ops, op)
		}
		c.Senders = append(c.Senders, s)
	}
	if fifo {
		// one addressing mode per (sender, receiver) pair in most runs: across modes the protocol
		// gives no ordering (known finding), and that would end most runs before anything else is judged
		if r.Chance(0.85) {
			modes := []string{"pid", "name", "alias"}
			for si := range c.Senders {
				for j := range c.Senders[si].Ops {
					c.Senders[si].Ops[j].Mode = modes[(si+c.Senders[si].Ops[j].To)%3]
				}
			}
		}
		cuts := 0
		for i, n := 0, r.Range(0, 2); i < n; i++ {
			f := NDFault{Kind: simkit.Pick(r, "cutlink", "stall", "stall"), AfterN: r.Range(1, 12), Link: r.Intn(3), Ms: simkit.Pick(r, 1, 50, 2000)}
			if f.Kind == "cutlink" {
				// a single pooled link is dropped; losing every link is C14's subject
				if c.Pool < 2 || cuts > 0 {
					f.Kind = "stall"
				} else {
					cuts++
				}
			}
			c.Faults = append(c.Faults, f)
		}
	}
	return c
}

func shrinkNDCase(c *NDCase) []any {
	var out []any
	for i := range c.Senders {
		if len(c.Senders) > 1 {
			n := cloneJSON(c)
			n.Senders = dropAt(n.Senders, i)
			out = append(out, n)
		}
	}
	for i := range c.Faults {
		n := cloneJSON(c)
		n.Faults = dropAt(n.Faults, i)
		out = append(out, n)
	}
	for i := range c.Senders {
		for j := range c.Senders[i].Ops {
			if len(c.Senders[i].Ops) > 1 {
				n := cloneJSON(c)
				n.Senders[i].Ops = dropAt(n.Senders[i].Ops, j)
				out = append(out, n)
			}
		}
	}
	if c.Segment {
		n := cloneJSON(c)
		n.Segment = false
		out = append(out, n)
	}
	if c.Pool > 1 {
		n := cloneJSON(c)
		n.Pool = 1
		out = append(out, n)
	}
	for i := range c.Senders {
		if c.Senders[i].Compress != "" {
			n := cloneJSON(c)
			n.Senders[i].Compress = ""
			out = append(out, n)
		}
	}
	return out
}

type ndRecv struct {
	rcv     int
	id      int
	from    gen.PID
	ok      bool // payload equal to what the id denotes
	kind    string
	step    int
	problem string
}

type ndSent struct {
	sender int
	seq    int
	id     int
	op     NDOp
	err    error
	reply  any
	step   int // scheduler step at which the send was issued
}

type ndRun struct {
	e        *simkit.Env
	c        *NDCase
	sn       *simkit.SimNet
	a, b     gen.Node
	mu       sync.Mutex
	recv     []ndRecv
	sent     []ndSent
	rpid     []gen.PID
	ralias   []gen.Alias
	spid     []gen.PID
	issued   int
	faultsAt map[int][]NDFault
	tail     []int // ids of the messages sent long after the last fault
	cutSteps []int // scheduler steps at which a link was cut
}

func compressionOf(s NDSender) gen.Compression {
	if s.Compress == "" {
		return gen.Compression{}
	}
	c := gen.Compression{Enable: true, Threshold: s.Threshold}
	switch s.Compress {
	case "zlib":
		c.Type = gen.CompressionTypeZLIB
	case "lzw":
		c.Type = gen.CompressionTypeLZW
	default:
		c.Type = gen.CompressionTypeGZIP
	}
	switch s.Level {
	case 1:
		c.Level = gen.CompressionBestSpeed
	case 2:
		c.Level = gen.CompressionBestSize
	default:
		c.Level = gen.CompressionDefault
	}
	return c
}

// runDelivery executes the workload and returns the logs.
func runDelivery(prop string, e *simkit.Env, c *NDCase) *ndRun {
	sn := simkit.NewSimNet(e)
	if c.Segment {
		sn.Segment = 1
	}
	sn.Skew = c.Skew
	r := &ndRun{e: e, c: c, sn: sn, faultsAt: map[int][]NDFault{}}
	for _, f := range c.Faults {
		r.faultsAt[f.AfterN] = append(r.faultsAt[f.AfterN], f)
	}
	poolA := c.Pool
	if c.PoolA > 0 {
		poolA = c.PoolA
	}
	r.a = simkit.StartNetNode(e, sn, simkit.NetNodeOptions{Name: "a@h1", Cookie: "secret", PoolSize: poolA})
	r.b = simkit.StartNetNode(e, sn, simkit.NetNodeOptions{Name: "b@h2", Cookie: "secret", PoolSize: c.Pool, MaxMessageSize: c.MaxSizeB})
	if r.a == nil || r.b == nil {
		return nil
	}
	// receivers on b
	for i := 0; i < c.RFiller; i++ {
		r.b.Spawn(ProbeFactory(&Hooks{Name: "filler"}), gen.ProcessOptions{})
	}
	r.ralias = make([]gen.Alias, len(c.Receivers))
	for i, mb := range c.Receivers {
		i := i
		h := &Hooks{Name: fmt.Sprintf("rcv%d", i), Env: e, Slow: true}
		errReply := false
		note := func(kind string, from gen.PID, m any) (int, bool) {
			msg, ok := m.(ndMsg)
			if !ok {
				return 0, false
			}
			errReply = false
			rec := ndRecv{rcv: i, id: msg.ID, from: from, kind: kind, step: e.Step()}
			r.mu.Lock()
			var op *NDOp
			for k := range r.sent {
				if r.sent[k].id == msg.ID {
					op = &r.sent[k].op
				}
			}
			r.mu.Unlock()
			if op == nil {
				// the send record is created before the send is issued
				rec.problem = "unknown message id"
			} else {
				errReply = op.ErrReply
				want := ndPayload(msg.ID, op.Typ, op.Size)
				rec.ok = reflect.DeepEqual(want, msg.Data)
				if !rec.ok {
					rec.problem = fmt.Sprintf("payload differs: got %T len %d", msg.Data, approxLen(msg.Data))
				}
			}
			r.mu.Lock()
			r.recv = append(r.recv, rec)
			r.mu.Unlock()
			e.Logf("rcv%d got %s id=%d ok=%v", i, kind, msg.ID, rec.ok)
			return msg.ID, true
		}
		h.Message = func(p *Probe, from gen.PID, m any) error {
			if s, ok := m.(string); ok && s == "setup" {
				a, err := p.CreateAlias()
				if err != nil {
					e.Fail(prop+"/unexpected-failure", "CreateAlias: %v", err)
				}
				r.ralias[i] = a
				return nil
			}
			note("msg", from, m)
			return nil
		}
		h.Call = func(p *Probe, from gen.PID, ref gen.Ref, req any) (any, error) {
			id, ok := note("call", from, req)
			if !ok {
				return nil, nil
			}
			if errReply {
				if err := p.SendResponseError(from, ref, fmt.Errorf("refused-%d", id)); err != nil {
					e.Logf("rcv%d SendResponseError id=%d -> %v", i, id, err)
				}
				return nil, nil
			}
			return ndMsg{ID: -id, Data: int64(id)}, nil
		}
		pid, err := r.b.SpawnRegister(gen.Atom(fmt.Sprintf("rcv%d", i)), ProbeFactory(h), gen.ProcessOptions{MailboxSize: int64(mb)})
		if err != nil {
			e.Infra("spawn receiver: " + err.Error())
			return nil
		}
		r.rpid = append(r.rpid, pid)
		r.b.Send(pid, "setup")
	}
	e.Settle(time.Millisecond)
	if e.Failed() {
		return r
	}
	// make the connection before the streams start (its establishment is C15's subject)
	var cerr error
	if c.DialBack {
		_, cerr = r.b.Network().GetNode("a@h1")
		e.Probe("senders-on-the-accepting-side")
	} else {
		_, cerr = r.a.Network().GetNode("b@h2")
	}
	if cerr != nil {
		e.Fail(prop+"/unexpected-failure", "nodes with the same cookie could not connect: %v", cerr)
		return r
	}
	// the streams start when the pool is complete (the accepting side decides its size; a slow link
	// takes seconds to join): senders change links whenever the pool changes, see the known finding
	wantLinks := c.Pool
	if c.DialBack {
		wantLinks = poolA
	}
	for i := 0; i < 300 && len(sn.LiveLinks()) < wantLinks; i++ {
		e.Sleep(200 * time.Millisecond)
	}
	e.Settle(2 * time.Second)

	missing := gen.PID{Node: "b@h2", ID: 999999, Creation: r.rpid[0].Creation}
	for si, s := range c.Senders {
		si, s := si, s
		for i := 0; i < s.Filler; i++ {
			r.a.Spawn(ProbeFactory(&Hooks{Name: "filler"}), gen.ProcessOptions{})
		}
		who := fmt.Sprintf("snd%d", si)
		h := &Hooks{Name: who, Env: e}
		done := make(chan struct{})
		h.Message = func(p *Probe, from gen.PID, m any) error {
			if m != "go" {
				return nil
			}
			defer close(done)
			if s.NoOrder {
				p.SetKeepNetworkOrder(false)
			}
			for j, op := range s.Ops {
				id := (si+1)*1000 + j
				var to any
				switch {
				case op.To >= len(c.Receivers):
					to = missing
					if op.Mode == "name" {
						to = gen.ProcessID{Name: "nobody", Node: "b@h2"}
					}
				case op.Mode == "name":
					to = gen.ProcessID{Name: gen.Atom(fmt.Sprintf("rcv%d", op.To)), Node: "b@h2"}
				case op.Mode == "alias":
					to = r.ralias[op.To]
				default:
					to = r.rpid[op.To]
				}
				if op.PauseNs > 0 {
					e.Sleep(time.Duration(op.PauseNs))
				}
				msg := ndMsg{ID: id, Data: ndPayload(id, op.Typ, op.Size)}
				rec := ndSent{sender: si, seq: j, id: id, op: op, step: e.Step()}
				r.mu.Lock()
				r.sent = append(r.sent, rec)
				idx := len(r.sent) - 1
				r.issued++
				faults := r.faultsAt[r.issued]
				r.mu.Unlock()
				var err error
				var reply any
				switch op.Kind {
				case "send":
					err = p.Send(to, msg)
				case "sendprio":
					err = p.SendWithPriority(to, msg, gen.MessagePriorityNormal)
				case "important":
					err = p.SendImportant(to, msg)
				case "call":
					reply, err = p.CallWithTimeout(to, msg, 5)
				case "callimportant":
					reply, err = p.CallImportant(to, msg)
				}
				r.mu.Lock()
				r.sent[idx].err = err
				r.sent[idx].reply = reply
				r.mu.Unlock()
				e.Logf("%s %s id=%d to=%d/%s typ=%s size=%d -> %v", who, op.Kind, id, op.To, op.Mode, op.Typ, op.Size, err)
				for _, f := range faults {
					r.applyFault(f)
				}
			}
			return nil
		}
		pid, err := r.a.Spawn(ProbeFactory(h), gen.ProcessOptions{Compression: compressionOf(s)})
		if err != nil {
			e.Infra("spawn sender: " + err.Error())
			return nil
		}
		r.spid = append(r.spid, pid)
		e.Go(who+"-kick", func() {
			r.a.Send(pid, "go")
			if !e.WaitChan(done, 30*time.Minute) {
				e.Fail(prop+"/sender-stuck", "%s did not finish: a send or call neither returned nor timed out within 30 simulated minutes", who)
			}
		})
	}
	e.WaitClients(time.Hour)
	e.Settle(30 * time.Second)
	// tail: long after the last fault (a cut link has been re-dialled by now) fresh processes with
	// consecutive ids - they spread over all pooled links - write to an unbounded receiver
	cut := false
	for _, f := range c.Faults {
		if f.Kind == "cutlink" {
			cut = true
		}
	}
	target := -1
	for i, mb := range c.Receivers {
		if mb == 0 {
			target = i
			break
		}
	}
	if cut && target >= 0 && !e.Failed() {
		for k := 0; k < 6; k++ {
			k := k
			th := &Hooks{Name: fmt.Sprintf("tail%d", k), Env: e}
			th.Message = func(p *Probe, from gen.PID, m any) error {
				if m != "go" {
					return nil
				}
				for j := 0; j < 2; j++ {
					id := 900000 + k*10 + j
					op := NDOp{Kind: "send", To: target, Mode: "pid", Typ: "int"}
					r.mu.Lock()
					r.sent = append(r.sent, ndSent{sender: -1, seq: j, id: id, op: op})
					idx := len(r.sent) - 1
					r.mu.Unlock()
					err := p.Send(r.rpid[target], ndMsg{ID: id, Data: ndPayload(id, "int", 0)})
					r.mu.Lock()
					r.sent[idx].err = err
					r.tail = append(r.tail, id)
					r.mu.Unlock()
					e.Logf("tail%d send id=%d -> %v", k, id, err)
				}
				return nil
			}
			pid, err := r.a.Spawn(ProbeFactory(th), gen.ProcessOptions{})
			if err != nil {
				e.Infra("spawn tail sender: " + err.Error())
				return nil
			}
			r.a.Send(pid, "go")
		}
		e.Settle(10 * time.Second)
		e.Probe("messages-after-redial")
	}
	return r
}

func (r *ndRun) applyFault(f NDFault) {
	links := r.sn.LiveLinks()
	if len(links) == 0 {
		return
	}
	lk := links[f.Link%len(links)]
	switch f.Kind {
	case "cutlink":
		r.e.Logf("fault: cut link %d", lk.ID)
		r.mu.Lock()
		r.cutSteps = append(r.cutSteps, r.e.Step())
		r.mu.Unlock()
		lk.Cut()
	case "stall":
		r.e.Logf("fault: stall link %d for %dms", lk.ID, f.Ms)
		lk.Stall(time.Duration(f.Ms) * time.Millisecond)
	}
}

func (r *ndRun) stop() {
	simkit.StopNode(r.e, r.a, false, 0)
	simkit.StopNode(r.e, r.b, false, 0)
}

func (r *ndRun) netProbes() {
	split, chunks := 0, 0
	for _, l := range r.sn.Links() {
		split += l.SplitRead
		chunks += l.Chunks
	}
	r.e.ProbeN("frame-split-across-reads", split)
	if len(r.sn.Links()) > 1 {
		r.e.Probe("pooled-links")
	}
}

func approxLen(v any) int {
	switch t := v.(type) {
	case []byte:
		return len(t)
	case string:
		return len(t)
	}
	return -1
}

func errIs(err error, targets ...error) bool {
	for _, t := range targets {
		if errors.Is(err, t) || (err != nil && strings.Contains(err.Error(), t.Error())) {
			return true
		}
	}
	return false
}
