package props

import (
	"fmt"

	"verifsim/simkit"
)

// C13 Network FIFO between a pair of processes.

type c13 struct{}

func init() { Register(c13{}) }

func (c13) ID() string    { return "C13" }
func (c13) Level() string { return "exploration" }
func (c13) NewCase() any  { return &NDCase{} }
func (c13) Nontrivial() []string {
	return []string{"pooled-links", "link-cut-mid-stream", "link-stalled-mid-stream", "frame-split-across-reads"}
}
func (c13) Rule() string {
	return "case = two real nodes over the simulated TCP network, pool size 1-3 with per-link latency skew up to 1000x, random segmentation; 1-4 sender actors (filler spawns vary the pid residue that selects link and receive queue) " +
		"each send a numbered stream to 1-3 receivers by pid/name/alias; faults: one pooled link is cut (and re-dialled by the protocol) or stalled at a drawn point of the stream; a control group switches KeepNetworkOrder off and is not judged. " +
		"Oracle: per (sender, receiver) the received sequence numbers strictly increase; items lost on a cut link may be missing, never out of order or duplicated. " +
		"Non-trivial = more than one link, a cut or a stall happened; distinct = distinct (schedule, history) hashes."
}
func (c13) Components() ([]string, []string) {
	return []string{"net/proto (link selection, receive queues, Join/redial)", "net/handshake Join", "node/network.go"},
		[]string{"TCP (simnet)", "registrar (static table)", "default logger disabled"}
}
func (c13) Generate(r *simkit.Rand, tier string) any { return genNDCase(r, tier, true) }
func (c13) Shrink(c any) []any                       { return shrinkNDCase(c.(*NDCase)) }
func (c13) Sched(r *simkit.Rand, c any) simkit.SchedSpec {
	s := DefaultSched(r, 3000)
	s.MaxSteps = 3000000
	return s
}

func (c13) Run(e *simkit.Env, cc any) {
	c := cc.(*NDCase)
	r := runDelivery("C13", e, c)
	if r == nil {
		return
	}
	defer r.stop()
	if e.Failed() {
		return
	}
	r.netProbes()
	for _, f := range c.Faults {
		if f.Kind == "cutlink" {
			e.Probe("link-cut-mid-stream")
		} else {
			e.Probe("link-stalled-mid-stream")
		}
	}
	r.mu.Lock()
	defer r.mu.Unlock()
	cut := false
	for _, f := range c.Faults {
		if f.Kind == "cutlink" {
			cut = true
		}
	}
	last := map[[3]int]int{}
	lastAny := map[[2]int]int{}
	crossMode := ""
	modeOf := map[int]int{}
	for _, s := range r.sent {
		m := 0
		switch s.op.Mode {
		case "name":
			m = 1
		case "alias":
			m = 2
		}
		modeOf[s.id] = m
	}
	seen := map[int]int{}
	for _, g := range r.recv {
		si := g.id/1000 - 1
		seq := g.id % 1000
		seen[g.id]++
		if si < 0 || si >= len(c.Senders) {
			continue
		}
		if seen[g.id] > 1 {
			e.Fail("C13/duplicate", "message %d of sender %d was delivered twice to receiver %d", seq, si, g.rcv)
			return
		}
		if c.Senders[si].NoOrder {
			continue
		}
		k := [3]int{si, g.rcv, modeOf[g.id]}
		if prev, ok := last[k]; ok && seq < prev {
			// which link a sender writes to is decided by its id modulo the current number of pooled
			// links: when a link is lost (and again when it has been re-dialled) senders change links
			// and what is still in flight on the old link is overtaken. A separate class (a known
			// finding) when the overtaking message was sent after a link had been cut.
			class := "C13/out-of-order"
			for _, sn := range r.sent {
				if sn.sender == si && sn.seq == prev {
					for _, cs := range r.cutSteps {
						if cs <= sn.step {
							class = "C13/out-of-order-after-link-loss"
						}
					}
				}
			}
			e.Fail(class, "receiver %d got message #%d of sender %d after #%d, both addressed the same way (pool %d, skew %v, faults %v)", g.rcv, seq, si, prev, c.Pool, c.Skew, c.Faults)
			return
		}
		last[k] = seq
		k2 := [2]int{si, g.rcv}
		if prev, ok := lastAny[k2]; ok && seq < prev && crossMode == "" {
			crossMode = fmt.Sprintf("receiver %d got message #%d of sender %d after #%d; the two were addressed differently (pid / name / alias)", g.rcv, seq, si, prev)
		}
		if seq > lastAny[k2] {
			lastAny[k2] = seq
		}
	}
	if crossMode != "" {
		e.Fail("C13/out-of-order-across-addressing-modes", "%s", crossMode)
		return
	}
	for _, id := range r.tail {
		for _, s := range r.sent {
			if s.id == id && s.err == nil && seen[id] != 1 {
				e.Fail("C13/lost-after-redial", "a message sent 30 simulated seconds after a pooled link had been cut (the connection stayed up and the link was re-dialled) was accepted and never delivered (pool %d, faults %v)", c.Pool, c.Faults)
				return
			}
		}
	}
	if !cut {
		for _, s := range r.sent {
			if s.err == nil && s.op.To < len(c.Receivers) && seen[s.id] != 1 {
				e.Fail("C13/lost-without-cut", "message #%d of sender %d to receiver %d was accepted and never delivered although no link was cut", s.seq, s.sender, s.op.To)
				return
			}
		}
	}
}
