package props

import (
	"crypto/tls"
	"encoding/binary"
	"fmt"
	"net"
	"strings"
	"sync"
	"time"

	"ergo.services/ergo/gen"
	"ergo.services/ergo/lib"
	"ergo.services/ergo/net/edf"
	"ergo.services/ergo/net/handshake"

	"verifsim/simkit"
)

// C15 Remote access control: cookie authentication and spawn/start permissions.

type C15Perm struct {
	Op    string `json:"op"`    // enable | disable | enableapp | disableapp | spawn | appstart
	Nodes string `json:"nodes"` // "" (no list) | a | c | ac
	From  string `json:"from"`  // spawn/appstart: requesting node a | c
}

type C15Case struct {
	// cookies
	CookieA    string `json:"cookie_a"`   // node cookie of the dialling node
	CookieB    string `json:"cookie_b"`   // node cookie of the accepting node
	AcceptorB  string `json:"acceptor_b"` // acceptor's own cookie ("" = none)
	RouteA     string `json:"route_a"`    // cookie of A's static route to B ("" = none)
	MaxA, MaxB int    `json:"-"`
	MaxSizeA   int    `json:"max_size_a"`
	MaxSizeB   int    `json:"max_size_b"`
	NoSpawnB   bool   `json:"no_spawn_b"`   // B's flags forbid remote spawn
	ExposeA    bool   `json:"expose_a"`     // A exposes its env on remote spawn
	ExposeAppA bool   `json:"expose_app_a"` // A exposes its env on remote application start (a switch of its own)
	// SetCookieB: b's node cookie is changed with Network.SetCookie before anybody connects; only
	// generated when b's acceptor has a cookie of its own, which keeps governing the endpoint
	SetCookieB string    `json:"set_cookie_b,omitempty"`
	Pool       int       `json:"pool"`
	Adversary  string    `json:"adversary"` // "" | silence | garbage | truncated | hugelen | replay-hello | replay-join
	Perms      []C15Perm `json:"perms"`
	// SetAcceptorB: values given one after the other to Acceptor.SetCookie of b's running acceptors
	// before anybody connects ("" = back to the cookie of the node); SetCookieA: a's node cookie is
	// changed with Network.SetCookie before it dials
	SetAcceptorB []string `json:"set_acceptor_b,omitempty"`
	SetCookieA   string   `json:"set_cookie_a,omitempty"`
	// TLS: b@h2 has a second acceptor that speaks TLS (port 15001); c@h3 reaches b through it, and
	// the adversary talks to it as a TLS client (it knows no cookie but can of course do TLS)
	TLS bool `json:"tls,omitempty"`
}

type c15 struct{}

func init() { Register(c15{}) }

func (c15) ID() string    { return "C15" }
func (c15) Level() string { return "exploration" }
func (c15) NewCase() any  { return &C15Case{} }
func (c15) Nontrivial() []string {
	return []string{"connect-refused-wrong-cookie", "connected-and-agreed", "adversary-rejected", "spawn-refused", "spawn-allowed", "appstart-refused", "appstart-allowed"}
}
func (c15) Rule() string {
	return "case = node cookies of both sides, an optional cookie of the accepting node's acceptor, an optional cookie on the dialler's static route, message size limits, flags, pool size; " +
		"an adversary that owns no cookie talks to the acceptor over the simulated network: silence, garbage, a truncated message, an oversized length, and replays of byte-exact transcripts recorded from the legitimate handshakes of the same run (Hello/Introduce of the first link, Join of a pooled link), " +
		"followed by a well-formed message frame for a probe actor; then a history of EnableSpawn/DisableSpawn/EnableApplicationStart/DisableApplicationStart (with and without node lists) interleaved with remote spawn and application start requests from two peers. " +
		"Oracle: connected iff the dialler's effective cookie equals the acceptor's effective cookie, both ends then agree on names, creations, flags and limits, otherwise neither lists the other; the adversary never gets a frame delivered and never appears as a peer; " +
		"a remote spawn / application start succeeds only if the name is enabled for that peer by the history and the flags allow it; the requester's environment arrives iff it switched exposure on. " +
		"Non-trivial = a connection was refused or agreed, the adversary was rejected, or a permission was exercised; distinct = distinct (schedule, history) hashes."
}
func (c15) Components() ([]string, []string) {
	return []string{"net/handshake (Start, Accept, Join)", "node/network.go (acceptors, routes, permissions)", "net/proto (remote spawn / application start)"},
		[]string{"TCP (simnet)", "registrar (static table)", "default logger disabled"}
}

func (c15) Generate(r *simkit.Rand, tier string) any {
	cookies := []string{"alpha", "beta"}
	c := &C15Case{CookieA: simkit.Pick(r, cookies...), CookieB: simkit.Pick(r, cookies...), Pool: r.Range(1, 2)}
	if r.Chance(0.4) {
		c.AcceptorB = simkit.Pick(r, "alpha", "beta", "gamma")
	}
	if r.Chance(0.4) {
		c.RouteA = simkit.Pick(r, "alpha", "beta", "gamma")
	}
	if r.Chance(0.25) {
		for i, n := 0, r.Range(1, 2); i < n; i++ {
			c.SetAcceptorB = append(c.SetAcceptorB, simkit.Pick(r, "alpha", "beta", "gamma", ""))
		}
	}
	if r.Chance(0.15) {
		c.SetCookieA = simkit.Pick(r, "alpha", "beta", "gamma")
	}
	c.MaxSizeA = simkit.Pick(r, 0, 0, 100000)
	c.MaxSizeB = simkit.Pick(r, 0, 0, 50000)
	c.NoSpawnB = r.Chance(0.2)
	c.ExposeA = r.Bool()
	c.ExposeAppA = r.Bool()
	if c.AcceptorB != "" && (len(c.SetAcceptorB) == 0 || c.SetAcceptorB[len(c.SetAcceptorB)-1] != "") && r.Chance(0.3) {
		c.SetCookieB = simkit.Pick(r, "alpha", "beta", "delta")
	}
	c.Adversary = simkit.Pick(r, "", "silence", "garbage", "truncated", "hugelen", "replay-hello", "replay-join", "replay-join", "forge", "forge", "forge-empty", "forge-empty", "forge-long", "trickle", "trickle")
	c.TLS = r.Chance(0.3)
	if c.Adversary == "replay-join" {
		c.Pool = 2
	}
	for i, n := 0, r.Range(2, 7); i < n; i++ {
		p := C15Perm{Op: simkit.Pick(r, "enable", "enable", "disable", "enableapp", "disableapp", "spawn", "spawn", "appstart"),
			Nodes: simkit.Pick(r, "", "", "a", "c", "ac"), From: simkit.Pick(r, "a", "a", "c")}
		c.Perms = append(c.Perms, p)
	}
	return c
}

func (c15) Shrink(cc any) []any {
	c := cc.(*C15Case)
	var out []any
	for i := range c.Perms {
		n := cloneJSON(c)
		n.Perms = dropAt(n.Perms, i)
		out = append(out, n)
	}
	if c.Adversary != "" {
		n := cloneJSON(c)
		n.Adversary = ""
		out = append(out, n)
	}
	if len(c.SetAcceptorB) > 0 {
		n := cloneJSON(c)
		n.SetAcceptorB = n.SetAcceptorB[:len(n.SetAcceptorB)-1]
		out = append(out, n)
	}
	if c.SetCookieA != "" {
		n := cloneJSON(c)
		n.SetCookieA = ""
		out = append(out, n)
	}
	if c.SetCookieB != "" {
		n := cloneJSON(c)
		n.SetCookieB = ""
		out = append(out, n)
	}
	return out
}

func (c15) Sched(r *simkit.Rand, c any) simkit.SchedSpec {
	s := DefaultSched(r, 2500)
	s.MaxSteps = 1500000
	return s
}

type c15App struct{ spec gen.ApplicationSpec }

func (a *c15App) Load(node gen.Node, args ...any) (gen.ApplicationSpec, error) { return a.spec, nil }
func (a *c15App) Start(mode gen.ApplicationMode)                               {}
func (a *c15App) Terminate(reason error)                                       {}

func nodesOf(s string) []gen.Atom {
	var out []gen.Atom
	for _, ch := range s {
		switch ch {
		case 'a':
			out = append(out, "a@h1")
		case 'c':
			out = append(out, "c@h3")
		}
	}
	return out
}

// permModel: is the name enabled for the peer according to the history of calls?
type permModel struct {
	exists bool
	any    bool
	pure   bool // only 'enable for every node' calls since the permission was created
	on     map[gen.Atom]bool
	off    map[gen.Atom]bool
}

func (m *permModel) enable(nodes []gen.Atom) {
	if !m.exists {
		*m = permModel{exists: true, on: map[gen.Atom]bool{}, off: map[gen.Atom]bool{}}
	}
	if len(nodes) == 0 {
		m.any = true
		m.pure = true
		m.on, m.off = map[gen.Atom]bool{}, map[gen.Atom]bool{}
		return
	}
	m.pure = false
	for _, n := range nodes {
		m.on[n] = true
		delete(m.off, n)
	}
}

func (m *permModel) disable(nodes []gen.Atom) {
	if !m.exists {
		return
	}
	if len(nodes) == 0 {
		*m = permModel{}
		return
	}
	m.pure = false
	for _, n := range nodes {
		m.off[n] = true
		delete(m.on, n)
	}
}

func (m *permModel) allowed(peer gen.Atom) bool {
	if !m.exists || m.off[peer] {
		return false
	}
	return m.any || m.on[peer]
}

func (c15) Run(e *simkit.Env, cc any) {
	c := cc.(*C15Case)
	sn := simkit.NewSimNet(e)
	sn.MinLatency, sn.Jitter = time.Millisecond, time.Millisecond
	// record what the dialler of each link writes (transcripts for replay)
	var tmu sync.Mutex
	transcripts := map[int][][]byte{}
	sn.Tap = func(l *simkit.Link, side int, b []byte) {
		if side == 0 {
			tmu.Lock()
			transcripts[l.ID] = append(transcripts[l.ID], b)
			tmu.Unlock()
		}
	}
	flagsB := gen.DefaultNetworkFlags
	if c.NoSpawnB {
		flagsB.EnableRemoteSpawn = false
		flagsB.EnableRemoteApplicationStart = false
	}
	a := simkit.StartNetNode(e, sn, simkit.NetNodeOptions{Name: "a@h1", Cookie: c.CookieA, PoolSize: c.Pool, MaxMessageSize: c.MaxSizeA,
		Mod: func(o *gen.NodeOptions) {
			o.Security.ExposeEnvRemoteSpawn = c.ExposeA
			o.Security.ExposeEnvRemoteApplicationStart = c.ExposeAppA
			o.Env = map[gen.Env]any{"SECRET_OF_A": "a-secret"}
		}})
	tlsPort := uint16(0)
	if c.TLS {
		tlsPort = 15001
	}
	b := simkit.StartNetNode(e, sn, simkit.NetNodeOptions{Name: "b@h2", Cookie: c.CookieB, AcceptorCookie: c.AcceptorB, PoolSize: c.Pool, MaxMessageSize: c.MaxSizeB, Flags: flagsB, TLSPort: tlsPort})
	// C shares B's effective cookie so that it can always connect
	effB := c.CookieB
	if c.AcceptorB != "" {
		effB = c.AcceptorB
	}
	for _, v := range c.SetAcceptorB {
		if effB = v; v == "" {
			effB = c.CookieB // gen.AcceptorOptions.Cookie: "leave it empty in case of using the node's cookie"
		}
	}
	cn := simkit.StartNetNode(e, sn, simkit.NetNodeOptions{Name: "c@h3", Cookie: effB, PoolSize: 1})
	if a == nil || b == nil || cn == nil {
		return
	}
	defer func() {
		simkit.StopNode(e, a, false, 0)
		simkit.StopNode(e, b, false, 0)
		simkit.StopNode(e, cn, false, 0)
	}()
	if len(c.SetAcceptorB) > 0 {
		acs, err := b.Network().Acceptors()
		if err != nil || len(acs) == 0 {
			e.Infra(fmt.Sprintf("acceptors of b: %v %d", err, len(acs)))
			return
		}
		for _, v := range c.SetAcceptorB {
			for _, ac := range acs {
				ac.SetCookie(v)
			}
		}
		e.Probe("acceptor-cookie-changed-at-run-time")
	}
	if c.SetCookieB != "" {
		// the acceptor has a cookie of its own: the node cookie is not what this endpoint asks for
		b.Network().SetCookie(c.SetCookieB)
		e.Probe("node-cookie-changed-at-run-time")
	}
	if c.SetCookieA != "" {
		a.Network().SetCookie(c.SetCookieA)
		e.Probe("node-cookie-changed-at-run-time")
	}
	if c.TLS {
		// c reaches b through the TLS acceptor
		if err := cn.Network().AddRoute("b@h2", gen.NetworkRoute{Route: gen.Route{Host: "h2", Port: 15001, TLS: true}, InsecureSkipVerify: true}, 100); err != nil {
			e.Fail("C15/unexpected-failure", "AddRoute: %v", err)
			return
		}
		e.Probe("tls-acceptor")
	}
	if c.RouteA != "" {
		if err := a.Network().AddRoute("b@h2", gen.NetworkRoute{Route: gen.Route{Host: "h2", Port: 15000}, Cookie: c.RouteA}, 100); err != nil {
			e.Fail("C15/unexpected-failure", "AddRoute: %v", err)
			return
		}
	}
	// probe actor on B: must only ever see what legitimate nodes sent
	var pmu sync.Mutex
	var probeGot []string
	ph := &Hooks{Name: "probe", Env: e}
	ph.Message = func(p *Probe, from gen.PID, m any) error {
		pmu.Lock()
		probeGot = append(probeGot, fmt.Sprintf("%v from %s", m, from.Node))
		pmu.Unlock()
		return nil
	}
	probePID, err := b.SpawnRegister("probe", ProbeFactory(ph), gen.ProcessOptions{})
	if err != nil {
		e.Infra("spawn probe: " + err.Error())
		return
	}

	// ---- (a) cookie and agreement ----
	effA := c.CookieA
	if c.SetCookieA != "" {
		effA = c.SetCookieA
	}
	if c.RouteA != "" {
		effA = c.RouteA
	}
	shouldConnect := effA == effB
	rn, cerr := a.Network().GetNode("b@h2")
	e.Settle(3 * time.Second)
	e.Logf("connect a->b: effective cookies %q / %q -> %v", effA, effB, cerr)
	connected := cerr == nil
	if connected != shouldConnect {
		if connected {
			e.Fail("C15/connected-with-wrong-cookie", "the dialler presented %q (node %q, route %q) and the acceptor expects %q (node %q, acceptor %q), yet the nodes are connected",
				effA, c.CookieA, c.RouteA, effB, c.CookieB, c.AcceptorB)
		} else {
			e.Fail("C15/refused-with-right-cookie", "both sides use the cookie %q for this endpoint (dialler: node %q route %q; acceptor: node %q acceptor %q) but the connection failed: %v",
				effA, c.CookieA, c.RouteA, c.CookieB, c.AcceptorB, cerr)
		}
		return
	}
	listed := func(n gen.Node, peer gen.Atom) bool {
		for _, x := range n.Network().Nodes() {
			if x == peer {
				return true
			}
		}
		return false
	}
	if !connected {
		e.Probe("connect-refused-wrong-cookie")
		if listed(a, "b@h2") || listed(b, "a@h1") {
			e.Fail("C15/half-connected", "the handshake failed but a node lists the other one as connected")
			return
		}
	} else {
		rb, err := b.Network().Node("a@h1")
		if err != nil {
			e.Fail("C15/half-connected", "a@h1 is connected to b@h2 but b@h2 does not know a@h1: %v", err)
			return
		}
		ia, ib := rn.Info(), rb.Info()
		if ia.Node != "b@h2" || ib.Node != "a@h1" || rn.Creation() == 0 || rb.Creation() == 0 {
			e.Fail("C15/disagreement", "names/creations after the handshake: a sees %s/%d, b sees %s/%d", ia.Node, rn.Creation(), ib.Node, rb.Creation())
			return
		}
		if ia.MaxMessageSize != c.MaxSizeB || ib.MaxMessageSize != c.MaxSizeA {
			e.Fail("C15/disagreement", "message size limits after the handshake: a believes b accepts %d (b: %d), b believes a accepts %d (a: %d)", ia.MaxMessageSize, c.MaxSizeB, ib.MaxMessageSize, c.MaxSizeA)
			return
		}
		if ia.NetworkFlags.EnableRemoteSpawn != flagsB.EnableRemoteSpawn {
			e.Fail("C15/disagreement", "a believes b's EnableRemoteSpawn flag is %v, b set %v", ia.NetworkFlags.EnableRemoteSpawn, flagsB.EnableRemoteSpawn)
			return
		}
		e.Probe("connected-and-agreed")
	}

	// ---- adversary ----
	if c.Adversary != "" {
		forged := forgedFrame(probePID)
		dialB := func() (net.Conn, error) {
			if !c.TLS {
				return sn.Dial("tcp", "h2:15000")
			}
			raw, err := sn.Dial("tcp", "h2:15001")
			if err != nil {
				return nil, err
			}
			tc := tls.Client(raw, &tls.Config{InsecureSkipVerify: true})
			raw.SetReadDeadline(time.Now().Add(2 * time.Second))
			if err := tc.Handshake(); err != nil {
				raw.Close()
				return nil, err
			}
			raw.SetReadDeadline(time.Time{})
			e.Probe("adversary-speaks-tls")
			return tc, nil
		}
		send := func(payload []byte, wait time.Duration) {
			conn, err := dialB()
			if err != nil {
				return
			}
			if payload != nil {
				conn.Write(payload)
			}
			time.Sleep(wait)
			e.Gate("adversary")
			conn.Write(forged)
			time.Sleep(200 * time.Millisecond)
			e.Gate("adversary")
			conn.Close()
		}
		tmu.Lock()
		var hello, join []byte
		for id := 0; id < 8; id++ {
			for _, chunk := range transcripts[id] {
				if len(chunk) > 8 && chunk[0] == 87 {
					// a handshake message; Join messages are written on pooled links (id > 0) by the dialler
					if id == 0 && hello == nil {
						hello = chunk
					}
					if id > 0 && join == nil && connected {
						join = chunk
					}
				}
			}
		}
		var all0 []byte
		for _, chunk := range transcripts[0] {
			all0 = append(all0, chunk...)
		}
		tmu.Unlock()
		if c.TLS && c.Adversary == "replay-hello" {
			// what the adversary recorded is the handshake of a fourth node with the right cookie on
			// the plain acceptor; that node has left since, so its name is free on b
			nb := len(sn.Links())
			d := simkit.StartNetNode(e, sn, simkit.NetNodeOptions{Name: "d@h4", Cookie: effB, PoolSize: 1})
			if d != nil {
				_, derr := d.Network().GetNode("b@h2")
				e.Settle(time.Second)
				simkit.StopNode(e, d, false, 0)
				e.Settle(3 * time.Second)
				if derr == nil {
					tmu.Lock()
					for _, l := range sn.Links() {
						if l.ID >= nb && l.ServerAddr == "h2:15000" && len(transcripts[l.ID]) > 0 {
							all0 = nil
							for _, chunk := range transcripts[l.ID] {
								all0 = append(all0, chunk...)
							}
							break
						}
					}
					tmu.Unlock()
					e.Probe("recorded-plain-handshake-replayed-over-tls")
				}
			}
		}
		switch c.Adversary {
		case "trickle":
			// a client that sends the beginning of a hello one byte at a time and keeps the socket
			// open: the acceptor must not be occupied with it for good - three seconds later a node
			// with the right cookie connects (judged below) while the trickle goes on
			if len(hello) > 40 {
				tconn, err := dialB()
				if err == nil {
					stopTrickle := make(chan struct{})
					e.OnCleanup(func() { close(stopTrickle) })
					go func() {
						for i := 0; i < 40; i++ {
							select {
							case <-stopTrickle:
								tconn.Close()
								return
							default:
							}
							if _, werr := tconn.Write(hello[i : i+1]); werr != nil {
								return
							}
							time.Sleep(900 * time.Millisecond)
							e.Gate("adversary")
						}
						tconn.Close()
					}()
					e.Sleep(3 * time.Second)
				}
			}
		case "silence":
			send(nil, 1500*time.Millisecond)
		case "garbage":
			send([]byte("GET / HTTP/1.1\r\n\r\n\x00\x01\x02\x03\x04\x05\x06\x07"), 50*time.Millisecond)
		case "truncated":
			if len(hello) > 10 {
				send(hello[:len(hello)/2], 1500*time.Millisecond)
			}
		case "hugelen":
			send([]byte{87, 1, 0xff, 0xff, 0xff, 0xff, 1, 2, 3}, 50*time.Millisecond)
		case "replay-hello":
			if all0 != nil && e.R.Intn(2) == 0 {
				send(all0, 300*time.Millisecond)
			} else if all0 != nil {
				// frame by frame, leaving the acceptor time to answer in between (it reads one
				// message at a time and drops what came with it)
				conn, err := dialB()
				if err == nil {
					rest := all0
					for len(rest) >= 6 && rest[0] == 87 {
						l := 6 + int(binary.BigEndian.Uint32(rest[2:6]))
						if l > len(rest) {
							break
						}
						conn.Write(rest[:l])
						rest = rest[l:]
						time.Sleep(100 * time.Millisecond)
						e.Gate("adversary")
					}
					conn.Write(rest)
					conn.Write(forged)
					time.Sleep(200 * time.Millisecond)
					e.Gate("adversary")
					conn.Close()
				}
			}
		case "replay-join":
			if join != nil {
				send(join, 300*time.Millisecond)
			}
		case "forge", "forge-empty", "forge-long":
			// a complete handshake with made-up digests (a short hex string, nothing at all, far too
			// much): only a peer that skips or botches the verification accepts it
			digest := "00ff00ff"
			switch c.Adversary {
			case "forge-empty":
				digest = ""
			case "forge-long":
				digest = strings.Repeat("0a", 100)
			}
			conn, err := dialB()
			if err == nil {
				step := func(m any) {
					conn.Write(hsFrame(m))
					time.Sleep(100 * time.Millisecond)
					e.Gate("adversary")
				}
				step(handshake.MessageHello{Salt: "0123456789", Digest: digest})
				step(handshake.MessageIntroduce{Node: "evil@h9", Version: simkit.SimVersion, Flags: gen.DefaultNetworkFlags, Creation: 12345, Digest: digest})
				step(handshake.MessageAccept{})
				conn.Write(forged)
				time.Sleep(200 * time.Millisecond)
				e.Gate("adversary")
				conn.Close()
			}
		}
		e.Settle(3 * time.Second)
		pmu.Lock()
		got := append([]string(nil), probeGot...)
		pmu.Unlock()
		for _, g := range got {
			e.Fail("C15/forged-delivery", "a peer that never proved knowledge of the cookie (%s) got a message delivered to a process: %s", c.Adversary, g)
			return
		}
		for _, peer := range b.Network().Nodes() {
			if peer != "a@h1" && peer != "c@h3" {
				e.Fail("C15/unknown-peer", "after the adversary (%s) b@h2 lists the peer %s", c.Adversary, peer)
				return
			}
		}
		// the acceptor must still serve legitimate peers
		if _, err := cn.Network().GetNode("b@h2"); err != nil {
			e.Fail("C15/acceptor-stuck", "after the adversary (%s) a node with the right cookie cannot connect: %v", c.Adversary, err)
			return
		}
		e.Probe("adversary-rejected")
	}

	// ---- (b) permissions ----
	if _, err := cn.Network().GetNode("b@h2"); err != nil {
		e.Fail("C15/refused-with-right-cookie", "c@h3 uses b's effective cookie %q but cannot connect: %v", effB, err)
		return
	}
	envSeen := map[gen.PID]bool{}
	var memberEnv []bool // application members in start order: requester's environment present?
	var emu sync.Mutex
	wh := &Hooks{Name: "spawned", Env: e}
	wh.Init = func(p *Probe, args ...any) error {
		_, has := p.Env("SECRET_OF_A")
		emu.Lock()
		envSeen[p.PID()] = has
		if p.Name() == "rapp_m" {
			memberEnv = append(memberEnv, has)
		}
		emu.Unlock()
		return nil
	}
	factory := ProbeFactory(wh)
	app := &c15App{spec: gen.ApplicationSpec{Name: "rapp", Mode: gen.ApplicationModeTemporary,
		Group: []gen.ApplicationMemberSpec{{Name: "rapp_m", Factory: factory}}}}
	if _, err := b.ApplicationLoad(app); err != nil {
		e.Infra("ApplicationLoad: " + err.Error())
		return
	}
	var spawnM, appM permModel
	requester := func(from string) gen.Node {
		if from == "c" {
			return cn
		}
		return a
	}
	for i, pm := range c.Perms {
		nodes := nodesOf(pm.Nodes)
		switch pm.Op {
		case "enable":
			if err := b.Network().EnableSpawn("worker", factory, nodes...); err == nil {
				spawnM.enable(nodes)
			}
		case "disable":
			if err := b.Network().DisableSpawn("worker", nodes...); err == nil {
				spawnM.disable(nodes)
			}
		case "enableapp":
			if err := b.Network().EnableApplicationStart("rapp", nodes...); err == nil {
				appM.enable(nodes)
			}
		case "disableapp":
			if err := b.Network().DisableApplicationStart("rapp", nodes...); err == nil {
				appM.disable(nodes)
			}
		case "spawn", "appstart":
			rq := requester(pm.From)
			if pm.From == "a" && !connected {
				continue
			}
			peer := rq.Name()
			remote, err := rq.Network().Node("b@h2")
			if err != nil {
				continue
			}
			if pm.Op == "spawn" {
				pid, err := remote.Spawn("worker", gen.ProcessOptions{})
				e.Settle(time.Second)
				allowed := spawnM.allowed(peer) && !c.NoSpawnB
				e.Logf("perm %d: spawn by %s -> %v (model allowed=%v)", i, peer, err, allowed)
				if err == nil && !allowed {
					e.Fail("C15/spawn-not-permitted", "%s spawned 'worker' on b@h2 although the history of EnableSpawn/DisableSpawn calls does not enable it for that peer (flags forbid=%v); history: %v", peer, c.NoSpawnB, c.Perms[:i+1])
					return
				}
				if !allowed {
					// a peer that is not entitled claims to act for one that is: the request names a
					// process of the other node as the parent (the connection object lets a node
					// program send any options it likes)
					other := gen.Atom("a@h1")
					if peer == other {
						other = "c@h3"
					}
					if fr, ok := remote.(interface {
						RemoteSpawn(name gen.Atom, options gen.ProcessOptionsExtra) (gen.PID, error)
					}); ok {
						fake := gen.PID{Node: other, ID: 1001, Creation: remote.Creation()}
						_, ferr := fr.RemoteSpawn("worker", gen.ProcessOptionsExtra{ParentPID: fake, ParentLeader: fake})
						e.Settle(time.Second)
						e.Logf("perm %d: spawn by %s naming a process of %s as the parent -> %v", i, peer, other, ferr)
						if ferr == nil {
							e.Fail("C15/spawn-not-permitted", "%s, for which 'worker' is not enabled, spawned it on b@h2 by naming a process of %s as the parent in its request; history: %v", peer, other, c.Perms[:i+1])
							return
						}
						e.Probe("forged-requester-refused")
					}
				}
				if err == nil {
					e.Probe("spawn-allowed")
					emu.Lock()
					has, known := envSeen[pid]
					emu.Unlock()
					wantEnv := pm.From == "a" && c.ExposeA
					if known && has != wantEnv {
						e.Fail("C15/env-exposure", "process spawned for %s: requester's environment present=%v, exposure switched on=%v", peer, has, wantEnv)
						return
					}
				} else {
					e.Probe("spawn-refused")
					if spawnM.exists && spawnM.pure && !c.NoSpawnB {
						e.Fail("C15/spawn-refused-although-enabled", "'worker' is enabled for every node and the flags allow it, but the request of %s failed: %v", peer, err)
						return
					}
				}
			} else {
				err := remote.ApplicationStart("rapp", gen.ApplicationOptions{})
				e.Settle(time.Second)
				allowed := appM.allowed(peer) && !c.NoSpawnB
				e.Logf("perm %d: application start by %s -> %v (model allowed=%v)", i, peer, err, allowed)
				if err == nil && !allowed {
					e.Fail("C15/appstart-not-permitted", "%s started application 'rapp' on b@h2 although the history does not enable it for that peer (flags forbid=%v); history: %v", peer, c.NoSpawnB, c.Perms[:i+1])
					return
				}
				if err == nil {
					e.Probe("appstart-allowed")
					emu.Lock()
					var has, known bool
					if len(memberEnv) > 0 {
						has, known = memberEnv[len(memberEnv)-1], true
					}
					memberEnv = nil
					emu.Unlock()
					wantEnv := pm.From == "a" && c.ExposeAppA
					if known && has != wantEnv {
						e.Fail("C15/env-exposure", "member of the application started for %s: requester's environment present=%v, exposure for remote application start switched on=%v (for remote spawn: %v)", peer, has, wantEnv, c.ExposeA)
						return
					}
					b.ApplicationStop("rapp")
					e.Settle(time.Second)
				} else {
					e.Probe("appstart-refused")
				}
			}
		}
	}
}

// forgedFrame builds a well-formed protoMessagePID frame addressed to pid, as any TCP client could.
func forgedFrame(pid gen.PID) []byte {
	buf := lib.TakeBuffer()
	buf.Allocate(8 + 8 + 1 + 8 + 8)
	edf.Encode("forged-by-adversary", buf, edf.Options{})
	b := append([]byte(nil), buf.B...)
	b[0] = 78 // protoMagic
	b[1] = 1  // protoVersion
	binary.BigEndian.PutUint32(b[2:6], uint32(len(b)))
	b[6] = 1
	b[7] = 101 // protoMessagePID
	binary.BigEndian.PutUint64(b[8:16], 4242)
	b[16] = 0
	binary.BigEndian.PutUint64(b[25:33], pid.ID)
	return b
}

// hsFrame frames a handshake message the way net/handshake does.
func hsFrame(m any) []byte {
	buf := lib.TakeBuffer()
	buf.Allocate(6)
	if err := edf.Encode(m, buf, edf.Options{}); err != nil {
		return nil
	}
	b := append([]byte(nil), buf.B...)
	b[0], b[1] = 87, 1
	binary.BigEndian.PutUint32(b[2:6], uint32(len(b)-6))
	return b
}
