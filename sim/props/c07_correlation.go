package props

import (
	"errors"
	"fmt"
	"sync"
	"time"

	"ergo.services/ergo/gen"
	"ergo.services/ergo/net/edf"

	"verifsim/simkit"
)

// C07 Request/response correlation.

type C07Call struct {
	Callee   int    `json:"callee"`
	Behavior string `json:"behavior"` // now | async | dup | other | never | error | die | flood
	DelayMs  int    `json:"delay_ms"` // async/dup/other/flood: when the (late) reply is sent
	Timeout  int    `json:"timeout"`  // seconds
	Burst    int    `json:"burst"`    // MakeRef calls made by the caller before this call
	Mode     string `json:"mode"`     // pid | name | alias
}

type C07Case struct {
	Callees []string    `json:"callees"` // actor | split (actor with SetSplitHandle(true)) | meta
	Callers [][]C07Call `json:"callers"`
	// Remote: the callees (and the third-party responder) live on a second node; requests and replies
	// cross a simulated network with latency, pooled links with skew and optionally the loss of one of the links
	Remote    bool  `json:"remote,omitempty"`
	LatencyMs int   `json:"latency_ms,omitempty"`
	Pool      int   `json:"pool,omitempty"`
	Skew      []int `json:"skew,omitempty"`
	CutAtMs   int   `json:"cut_at_ms,omitempty"` // 0 = no cut
}

type c07 struct{}

func init() { Register(c07{}) }

func init() {
	for _, v := range []any{c07Req{}, c07Reply{}} {
		if err := edf.RegisterTypeOf(v); err != nil && err != gen.ErrTaken {
			panic(err)
		}
	}
}

func (c07) ID() string    { return "C07" }
func (c07) Level() string { return "exploration" }
func (c07) NewCase() any  { return &C07Case{} }
func (c07) Nontrivial() []string {
	return []string{"call-timed-out", "late-reply-sent", "duplicate-reply-sent", "reply-from-other-process", "ref-low-word-cycled", "stale-replies-queued", "remote-call-answered"}
}
func (c07) Rule() string {
	return "case = 1-3 caller actors each making a sequence of calls (unique request ids) to 1-3 callees (actors, meta-processes); per request the callee replies now, " +
		"asynchronously after a drawn delay (before/at/after the caller's timeout), twice, from another process, with an error, never, dies, or floods the caller with up to 12 stale replies; " +
		"callers optionally mint bursts of references between calls (including exactly the burst that makes the reference counter's low word cycle). Timeouts run on the simulated clock. " +
		"In one case out of four the callees live on a second real node behind the simulated network (latency up to 0.9 s x skew, 1-3 pooled links with skew, optionally one of the links cut mid-run). Oracle: a call returns its own reply or an error; a request is seen by the callee at most once; a reply is consumed at most once. " +
		"Non-trivial = a timeout, late/duplicate/foreign reply or reference cycle occurred; distinct = distinct (schedule, history) hashes."
}
func (c07) Components() ([]string, []string) {
	return []string{"node (waitResponse, RouteSendResponse*, MakeRef)", "act.Actor request loop", "meta-process HandleCall path", "remote cases: net/proto request/response frames, net/handshake, net/edf over the simulated transport"},
		[]string{"local cases: network disabled", "remote cases: TCP replaced by simkit.SimNet, static registrar", "default logger disabled"}
}

func (c07) Generate(r *simkit.Rand, tier string) any {
	c := &C07Case{}
	for i, n := 0, r.Range(1, 3); i < n; i++ {
		c.Callees = append(c.Callees, simkit.Pick(r, "actor", "actor", "split", "meta"))
	}
	maxCalls := 4
	if tier == "thorough" {
		maxCalls = 6
	}
	if r.Chance(0.25) {
		c.Remote = true
		c.LatencyMs = simkit.Pick(r, 1, 1, 5, 50, 200, 600)
		c.Pool = r.Range(1, 3)
		for i := 0; i < 2*c.Pool; i++ {
			c.Skew = append(c.Skew, simkit.Pick(r, 1, 1, 2, 10))
		}
		if c.Pool > 1 && r.Chance(0.4) {
			c.CutAtMs = r.Range(1, 6000)
		}
	}
	for i, n := 0, r.Range(1, 3); i < n; i++ {
		var calls []C07Call
		for j, m := 0, r.Range(1, maxCalls); j < m; j++ {
			cl := C07Call{Callee: r.Intn(len(c.Callees)), Timeout: simkit.Pick(r, 1, 1, 2, 5), Mode: simkit.Pick(r, "pid", "name", "alias")}
			if c.Callees[cl.Callee] == "meta" {
				cl.Behavior = simkit.Pick(r, "now", "now", "never", "error")
				cl.Mode = "alias"
			} else {
				cl.Behavior = simkit.Pick(r, "now", "now", "async", "async", "dup", "other", "never", "error", "die", "flood")
			}
			tms := cl.Timeout * 1000
			cl.DelayMs = simkit.Pick(r, 0, 1, tms/2, tms-1, tms, tms+1, tms+500, 2*tms+3)
			switch r.Intn(8) {
			case 0:
				cl.Burst = r.Range(1, 2000)
			case 1, 2:
				// the reference of this call equals the reference of the previous call of this
				// caller if some low part of the node's counter is all that distinguishes them
				cl.Burst = 1<<uint(r.Range(8, 18)) - 1
				if r.Chance(0.3) {
					cl.Burst = 262143
				}
			}
			calls = append(calls, cl)
		}
		c.Callers = append(c.Callers, calls)
	}
	return c
}

func (c07) Shrink(cc any) []any {
	c := cc.(*C07Case)
	var out []any
	if c.Remote {
		n := cloneJSON(c)
		n.Remote, n.CutAtMs, n.LatencyMs, n.Pool, n.Skew = false, 0, 0, 0, nil
		out = append(out, n)
		if c.CutAtMs > 0 {
			n := cloneJSON(c)
			n.CutAtMs = 0
			out = append(out, n)
		}
		if c.Pool > 1 {
			n := cloneJSON(c)
			n.Pool, n.Skew = 1, nil
			out = append(out, n)
		}
	}
	for i := range c.Callers {
		if len(c.Callers) > 1 {
			n := cloneJSON(c)
			n.Callers = dropAt(n.Callers, i)
			out = append(out, n)
		}
	}
	for i := range c.Callers {
		for j := range c.Callers[i] {
			if len(c.Callers[i]) > 1 {
				n := cloneJSON(c)
				n.Callers[i] = dropAt(n.Callers[i], j)
				out = append(out, n)
			}
		}
	}
	for i := range c.Callers {
		for j := range c.Callers[i] {
			if b := c.Callers[i][j].Burst; b > 0 && b&(b+1) != 0 {
				n := cloneJSON(c)
				n.Callers[i][j].Burst = 0
				out = append(out, n)
			}
		}
	}
	return out
}

type c07Req struct {
	ID       int
	Behavior string
	DelayMs  int
}

type c07Reply struct {
	Req    int
	Serial int
}

type c07Async struct {
	To     gen.PID
	Ref    gen.Ref
	Reply  c07Reply
	Copies int
}

func (c07) Run(e *simkit.Env, cc any) {
	c := cc.(*C07Case)
	var n, cn gen.Node // n: the callers' node, cn: the callees' node
	var sn *simkit.SimNet
	if c.Remote {
		sn = simkit.NewSimNet(e)
		sn.MinLatency, sn.Jitter = time.Millisecond, time.Millisecond // until the connection stands
		sn.Skew = c.Skew
		sn.Segment = 1
		n = simkit.StartNetNode(e, sn, simkit.NetNodeOptions{Name: "a@h1", Cookie: "k", PoolSize: c.Pool})
		cn = simkit.StartNetNode(e, sn, simkit.NetNodeOptions{Name: "b@h2", Cookie: "k", PoolSize: c.Pool})
		if n == nil || cn == nil {
			return
		}
		defer simkit.StopNode(e, cn, false, 0)
		defer simkit.StopNode(e, n, false, 0)
		if _, err := n.Network().GetNode("b@h2"); err != nil {
			e.Infra("connect a -> b: " + err.Error())
			return
		}
		e.Settle(2 * time.Second) // pooled links joined
		sn.SetLatency(time.Duration(c.LatencyMs)*time.Millisecond, time.Duration(c.LatencyMs)*time.Millisecond/2)
	} else {
		n = simkit.StartLocalNode(e, "c07@sim", nil)
		if n == nil {
			return
		}
		defer simkit.StopNode(e, n, false, 0)
		cn = n
	}
	var mu sync.Mutex
	seen := map[int]int{}     // request id -> times presented to a callee
	consumed := map[int]int{} // reply serial -> times returned by a Call
	replyOf := map[int]int{}  // reply serial -> request id
	serial := 0
	newReply := func(req int) c07Reply {
		mu.Lock()
		serial++
		s := serial
		replyOf[s] = req
		mu.Unlock()
		return c07Reply{Req: req, Serial: s}
	}

	// third-party responder
	oh := &Hooks{Name: "other", Env: e}
	oh.Message = func(p *Probe, from gen.PID, m any) error {
		if a, ok := m.(c07Async); ok {
			for i := 0; i < a.Copies; i++ {
				r := a.Reply
				if i > 0 {
					r = newReply(a.Reply.Req)
				}
				if err := p.SendResponse(a.To, a.Ref, r); err != nil {
					e.Logf("other: SendResponse -> %v", err)
				}
			}
		}
		return nil
	}
	otherPID, err := cn.Spawn(ProbeFactory(oh), gen.ProcessOptions{})
	if err != nil {
		e.Infra("spawn other: " + err.Error())
		return
	}

	type calleeRef struct {
		pid   gen.PID
		name  gen.Atom
		alias gen.Alias
		meta  gen.Alias
	}
	callees := make([]calleeRef, len(c.Callees))
	handleReq := func(self *Probe, from gen.PID, ref gen.Ref, rq c07Req) (any, error) {
		mu.Lock()
		seen[rq.ID]++
		mu.Unlock()
		e.Logf("callee sees req %d (%s)", rq.ID, rq.Behavior)
		delay := time.Duration(rq.DelayMs) * time.Millisecond
		switch rq.Behavior {
		case "now":
			return newReply(rq.ID), nil
		case "error":
			return fmt.Errorf("app-error-%d", rq.ID), nil
		case "never":
			return nil, nil
		case "die":
			return nil, fmt.Errorf("callee dies on %d", rq.ID)
		case "async":
			self.SendAfter(self.PID(), c07Async{To: from, Ref: ref, Reply: newReply(rq.ID), Copies: 1}, delay)
			e.Probe("late-reply-sent")
			return nil, nil
		case "dup":
			self.SendAfter(self.PID(), c07Async{To: from, Ref: ref, Reply: newReply(rq.ID), Copies: 1}, delay)
			e.Probe("duplicate-reply-sent")
			return newReply(rq.ID), nil
		case "other":
			self.SendAfter(otherPID, c07Async{To: from, Ref: ref, Reply: newReply(rq.ID), Copies: 1}, delay)
			e.Probe("reply-from-other-process")
			return nil, nil
		case "flood":
			self.SendAfter(otherPID, c07Async{To: from, Ref: ref, Reply: newReply(rq.ID), Copies: 12}, delay)
			e.Probe("stale-replies-queued")
			return nil, nil
		}
		return nil, nil
	}
	for i, kind := range c.Callees {
		i, kind := i, kind
		h := &Hooks{Name: fmt.Sprintf("callee%d", i), Env: e, Slow: true}
		h.Call = func(p *Probe, from gen.PID, ref gen.Ref, req any) (any, error) {
			rq, ok := req.(c07Req)
			if !ok {
				return nil, nil
			}
			return handleReq(p, from, ref, rq)
		}
		h.Message = func(p *Probe, from gen.PID, m any) error {
			switch v := m.(type) {
			case string:
				if v == "setup" {
					if kind == "split" {
						p.SetSplitHandle(true)
					}
					a, err := p.CreateAlias()
					if err != nil {
						e.Fail("C07/unexpected-failure", "CreateAlias: %v", err)
					}
					callees[i].alias = a
					if kind == "meta" {
						mh := &Hooks{Name: fmt.Sprintf("meta%d", i), Env: e, Slow: true}
						mh.MetaCall = func(m *ProbeMeta, from gen.PID, ref gen.Ref, req any) (any, error) {
							rq, ok := req.(c07Req)
							if !ok {
								return nil, nil
							}
							mu.Lock()
							seen[rq.ID]++
							mu.Unlock()
							e.Logf("meta callee sees req %d (%s)", rq.ID, rq.Behavior)
							switch rq.Behavior {
							case "now":
								return newReply(rq.ID), nil
							case "error":
								return fmt.Errorf("app-error-%d", rq.ID), nil
							}
							return nil, nil
						}
						id, err := p.SpawnMeta(NewProbeMeta(mh), gen.MetaOptions{})
						if err != nil {
							e.Fail("C07/unexpected-failure", "SpawnMeta: %v", err)
						}
						callees[i].meta = id
					}
				}
			case c07Async:
				for k := 0; k < v.Copies; k++ {
					if err := p.SendResponse(v.To, v.Ref, v.Reply); err != nil {
						e.Logf("callee%d: late SendResponse -> %v", i, err)
					}
				}
			}
			return nil
		}
		name := gen.Atom(fmt.Sprintf("callee%d", i))
		pid, err := cn.SpawnRegister(name, ProbeFactory(h), gen.ProcessOptions{})
		if err != nil {
			e.Infra("spawn callee: " + err.Error())
			return
		}
		callees[i].pid, callees[i].name = pid, name
		cn.Send(pid, "setup")
	}
	e.Settle(time.Millisecond)
	if e.Failed() {
		return
	}

	type outcome struct {
		id    int
		call  C07Call
		val   any
		err   error
		start time.Duration
		took  time.Duration
	}
	var outs []outcome
	for ci, calls := range c.Callers {
		ci, calls := ci, calls
		who := fmt.Sprintf("caller%d", ci)
		h := &Hooks{Name: who, Env: e}
		done := make(chan struct{})
		h.Message = func(p *Probe, from gen.PID, m any) error {
			if m != "go" {
				return nil
			}
			for j, cl := range calls {
				id := (ci+1)*100 + j
				if cl.Burst > 0 {
					for k := 0; k < cl.Burst; k++ {
						n.MakeRef()
					}
					if cl.Burst&(cl.Burst+1) == 0 && cl.Burst >= 255 && j > 0 {
						e.Probe("ref-low-word-cycled")
					}
				}
				var to any
				ce := callees[cl.Callee]
				switch {
				case c.Callees[cl.Callee] == "meta":
					to = ce.meta
				case cl.Mode == "name" && c.Remote:
					to = gen.ProcessID{Name: ce.name, Node: cn.Name()}
				case cl.Mode == "name":
					to = ce.name
				case cl.Mode == "alias":
					to = ce.alias
				default:
					to = ce.pid
				}
				t0 := e.Now()
				val, err := p.CallWithTimeout(to, c07Req{ID: id, Behavior: cl.Behavior, DelayMs: cl.DelayMs}, cl.Timeout)
				o := outcome{id: id, call: cl, val: val, err: err, start: t0, took: e.Now() - t0}
				mu.Lock()
				outs = append(outs, o)
				mu.Unlock()
				e.Logf("%s call %d (%s delay=%dms timeout=%ds) -> %v, %v after %v", who, id, cl.Behavior, cl.DelayMs, cl.Timeout, val, err, o.took)
			}
			close(done)
			return nil
		}
		pid, err := n.Spawn(ProbeFactory(h), gen.ProcessOptions{})
		if err != nil {
			e.Infra("spawn caller: " + err.Error())
			return
		}
		e.Go(who+"-kick", func() {
			n.Send(pid, "go")
			if !e.WaitChan(done, 30*time.Minute) {
				e.Fail("C07/call-hangs", "%s did not finish its calls within 30 simulated minutes (a call neither returned nor timed out)", who)
			}
		})
	}
	if c.CutAtMs > 0 {
		e.Go("cutter", func() {
			e.Sleep(time.Duration(c.CutAtMs) * time.Millisecond)
			// one of several links only: losing every link while the peer stays up runs into the
			// re-dial loop recorded as a known finding of C14
			if links := sn.LiveLinks(); len(links) > 1 {
				links[c.CutAtMs%len(links)].Cut()
				e.Fault("one-link-cut")
			}
		})
	}
	e.WaitClients(time.Hour)
	e.Settle(30 * time.Second)
	if e.Failed() {
		return
	}
	mu.Lock()
	defer mu.Unlock()
	for _, o := range outs {
		limit := time.Duration(o.call.Timeout)*time.Second + time.Millisecond
		if o.took > limit {
			e.Fail("C07/timeout-overrun", "call %d with timeout %ds returned after %v", o.id, o.call.Timeout, o.took)
			return
		}
		if o.err != nil {
			if errors.Is(o.err, gen.ErrTimeout) {
				e.Probe("call-timed-out")
				if o.call.Behavior == "now" || o.call.Behavior == "error" {
					// A timeout is a legal outcome of any call. It is flagged only where nothing
					// can explain it: the callee is alive, saw the request, answered at once, and
					// this caller cannot have stale replies of earlier calls queued (a full reply
					// buffer legitimately makes the runtime drop the fresh reply).
					excused := false
					for _, p := range outs {
						if p.call.Callee == o.call.Callee && p.call.Behavior == "die" {
							excused = true
						}
						if p.id/100 == o.id/100 && p.id < o.id {
							switch p.call.Behavior {
							case "async", "dup", "other", "flood":
								excused = true
							}
						}
					}
					if c.Remote && (c.CutAtMs > 0 || 4*c.LatencyMs*10 >= o.call.Timeout*1000) {
						// the reply may be lost with the connection, or two one-way trips over the
						// slowest link (latency x 1.5 x skew 10) may not fit into the timeout
						excused = true
					}
					if !excused && seen[o.id] == 1 {
						e.Fail("C07/reply-lost", "call %d was answered immediately by a live callee, the caller had no stale replies pending, yet the call timed out", o.id)
						return
					}
				}
			}
			continue
		}
		switch v := o.val.(type) {
		case c07Reply:
			if c.Remote {
				e.Probe("remote-call-answered")
			}
			if v.Req != o.id {
				e.Fail("C07/wrong-reply", "call %d (%s) returned the reply made for request %d (reply serial %d)", o.id, o.call.Behavior, v.Req, v.Serial)
				return
			}
			consumed[v.Serial]++
			if consumed[v.Serial] > 1 {
				e.Fail("C07/reply-consumed-twice", "reply serial %d (request %d) was returned by %d calls", v.Serial, v.Req, consumed[v.Serial])
				return
			}
		case error:
			if v.Error() != fmt.Sprintf("app-error-%d", o.id) {
				e.Fail("C07/wrong-reply", "call %d returned the error reply %q of another request", o.id, v.Error())
				return
			}
		default:
			e.Fail("C07/wrong-reply", "call %d returned an unexpected value %#v", o.id, o.val)
			return
		}
	}
	for id, k := range seen {
		if k > 1 {
			e.Fail("C07/request-presented-twice", "request %d was presented to its callee %d times", id, k)
			return
		}
	}
}
