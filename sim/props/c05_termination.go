package props

import (
	"fmt"
	"strings"
	"time"

	"ergo.services/ergo/gen"

	"verifsim/simkit"
)

// C05 Termination happens once, with the right reason, and is final.

type c05 struct{}

func init() { Register(c05{}) }

func (c05) ID() string    { return "C05" }
func (c05) Level() string { return "fault_enumeration" }
func (c05) NewCase() any  { return &TCase{} }
func (c05) Nontrivial() []string {
	return []string{"cause-kill", "cause-exit", "cause-metastop", "cause-err", "cause-panic", "cause-normal", "cause-parentexit", "racing-causes", "trapped-exit-survived"}
}
func (c05) Rule() string {
	return "case = one target (actor, supervisor, pool, meta-process) under ordinary traffic plus 1-3 termination causes drawn from " +
		"{handler error, handler returns normal, handler panic, Node.Kill, exit signal from a non-parent (trapped or not), exit signal from the parent, return of the meta-process Start} " +
		"placed at drawn positions of concurrent drivers, ended by a graceful or forced node stop; the scheduler explores the target's state (sleep, running, waiting, just woken, going to sleep) at the moment each cause lands. " +
		"Non-trivial = at least one cause was issued; distinct = distinct (schedule, history) hashes."
}
func (c05) Components() ([]string, []string) {
	return []string{"node (process/meta runtime, Kill, unregisterProcess, RouteTerminate*)", "act.Actor", "act.Supervisor", "act.Pool"},
		[]string{"network disabled", "default logger disabled", "OS signals"}
}
func (c05) Generate(r *simkit.Rand, tier string) any {
	if r.Chance(0.06) {
		return &TCase{Kind: "meta", EarlyEnd: r.Range(1, 4), MetaEarly: simkit.Pick(r, 0, 0, 1, 2)}
	}
	return genTCase(r, tier, true)
}
func (c05) Shrink(c any) []any { return shrinkTCase(c.(*TCase)) }

func (c05) Run(e *simkit.Env, cc any) {
	c := cc.(*TCase)
	if c.EarlyEnd > 0 {
		runC05EarlyEnd(e, c)
		return
	}
	t := runTarget("C05", e, c)
	if t == nil {
		return
	}
	t.probes()
	alive := t.targetAlive()
	th := t.th
	if c.Kind == "meta" {
		th = t.pm.H
	}
	t.mu.Lock()
	causes := append([]string(nil), t.causes...)
	trapped := t.trappedOK
	t.mu.Unlock()
	if trapped > 0 && alive {
		e.Probe("trapped-exit-survived")
	}
	check := func(stage string, mustBeDead bool, allowed []string) bool {
		tc := int(th.TermCount.Load())
		log := th.CallbackLog()
		if tc > 1 {
			e.Fail("C05/terminate-twice", "%s %s: terminate callback ran %d times (%s); callbacks: %s", c.Kind, stage, tc, strings.Join(causes, ","), strings.Join(tailS(log, 8), " "))
			return false
		}
		isAlive := t.targetAlive()
		if mustBeDead && isAlive {
			e.Fail("C05/not-terminated", "%s %s: causes %v were delivered but the target is still registered", c.Kind, stage, causes)
			return false
		}
		if !isAlive && tc != 1 {
			e.Fail("C05/terminated-without-callback", "%s %s: target is gone but its terminate callback ran %d times (causes %v)", c.Kind, stage, tc, causes)
			return false
		}
		if isAlive && tc != 0 {
			e.Fail("C05/callback-but-alive", "%s %s: terminate callback ran but the target is still registered", c.Kind, stage)
			return false
		}
		if tc == 1 {
			// terminate must be the last callback
			last := ""
			for i := len(log) - 1; i >= 0; i-- {
				if log[i] != "start" {
					last = log[i]
					break
				}
			}
			if last != "terminate" {
				e.Fail("C05/callback-after-terminate", "%s %s: callback %q ran after terminate%s; tail of callback log: %s", c.Kind, stage, last, t.tag(), strings.Join(tailS(log, 8), " "))
				return false
			}
			if cb := th.endedAfterTerminate(); cb != "" {
				e.Fail("C05/terminate-before-callback-finished", "%s %s: terminate was entered while callback %q of the same process was still in progress; it finished after terminate%s", c.Kind, stage, cb, t.tag())
				return false
			}
			t.mu.Lock()
			tr := reasonKey(t.termReason)
			ol := append([]error(nil), t.obsLink...)
			om := append([]error(nil), t.obsMon...)
			t.mu.Unlock()
			ok := false
			for _, a := range allowed {
				if a == tr {
					ok = true
				}
			}
			if !ok {
				e.Fail("C05/wrong-reason", "%s %s: terminate callback got reason %q but the causes issued allow only %v", c.Kind, stage, tr, allowed)
				return false
			}
			for _, o := range append(ol, om...) {
				ok := false
				for _, a := range allowed {
					if a == reasonKey(o) {
						ok = true
					}
				}
				if !ok {
					e.Fail("C05/wrong-reason-observer", "%s %s: an observer was told reason %q but the causes issued allow only %v", c.Kind, stage, reasonKey(o), allowed)
					return false
				}
			}
			if len(ol) > 1 || len(om) > 1 {
				e.Fail("C05/observer-notified-twice", "%s %s: linked observer got %d exits, monitoring observer got %d downs", c.Kind, stage, len(ol), len(om))
				return false
			}
			if len(ol) != 1 || len(om) != 1 {
				e.Fail("C05/observer-not-notified", "%s %s: the target terminated (%s); the trapping process linked to it got %d exit messages and the monitoring process %d down messages", c.Kind, stage, tr, len(ol), len(om))
				return false
			}
			if t.nameObservers {
				t.mu.Lock()
				oln := append([]error(nil), t.obsLinkName...)
				omn := append([]error(nil), t.obsMonName...)
				t.mu.Unlock()
				if len(oln) != 1 || len(omn) != 1 {
					e.Fail("C05/observer-not-notified", "%s %s: the target terminated (%s); the trapping top-level process linked to its registered name got %d exit messages and the one monitoring the name %d down messages", c.Kind, stage, tr, len(oln), len(omn))
					return false
				}
				for _, o := range append(oln, omn...) {
					ok := false
					for _, a := range allowed {
						if a == reasonKey(o) {
							ok = true
						}
					}
					if !ok {
						e.Fail("C05/wrong-reason-observer", "%s %s: an observer of the registered name was told reason %q but the causes issued allow only %v", c.Kind, stage, reasonKey(o), allowed)
						return false
					}
				}
			}
		}
		return true
	}
	// stage 1: after the drivers, before the node stops
	if !check("after-drivers", len(causes) > 0, causes) {
		t.stop()
		return
	}
	// stage 2: node stop (graceful: shutdown from the parent; forced: kill)
	t.stop()
	e.Settle(5 * 1e9)
	final := append([]string(nil), causes...)
	if alive {
		if c.NodeStop {
			final = append(final, "shutdown")
			if c.Kind == "meta" {
				// the owner is told to shut down; its meta-processes get the owner's reason
				final = append(final, "shutdown")
			}
		} else {
			final = append(final, "kill")
		}
	}
	tc := int(th.TermCount.Load())
	if tc != 1 {
		e.Fail("C05/terminate-count-after-stop", "%s: after the node stopped the terminate callback has run %d times (causes %v)", c.Kind, tc, final)
		return
	}
	log := th.CallbackLog()
	last := ""
	for i := len(log) - 1; i >= 0; i-- {
		if log[i] != "start" {
			last = log[i]
			break
		}
	}
	if last != "terminate" {
		e.Fail("C05/callback-after-terminate", "%s after node stop: callback %q ran after terminate%s; tail: %s", c.Kind, last, t.tag(), strings.Join(tailS(log, 8), " "))
		return
	}
	if cb := th.endedAfterTerminate(); cb != "" {
		e.Fail("C05/terminate-before-callback-finished", "%s after node stop: terminate was entered while callback %q of the same process was still in progress; it finished after terminate%s", c.Kind, cb, t.tag())
		return
	}
	t.mu.Lock()
	tr := reasonKey(t.termReason)
	t.mu.Unlock()
	ok := false
	for _, a := range final {
		if a == tr {
			ok = true
		}
	}
	if !ok {
		e.Fail("C05/wrong-reason", "%s after node stop: terminate callback got reason %q, allowed %v", c.Kind, tr, final)
	}
}

func tailS(xs []string, n int) []string {
	if len(xs) > n {
		return xs[len(xs)-n:]
	}
	return xs
}

// runC05EarlyEnd: a meta-process that is told to end in the very callback of its owner that spawned
// it. Whatever the order in which its Start goroutine, its mailbox goroutine and the owner get to
// run: Terminate runs exactly once and nothing of the meta-process - its Start included - runs after it.
func runC05EarlyEnd(e *simkit.Env, c *TCase) {
	n := simkit.StartLocalNode(e, "t@sim", nil)
	if n == nil {
		return
	}
	defer simkit.StopNode(e, n, false, 0)
	mh := &Hooks{Name: "meta", Env: e, Slow: true}
	pm := NewProbeMeta(mh)
	oh := &Hooks{Name: "owner", Env: e}
	spawned := make(chan struct{})
	oh.Message = func(p *Probe, from gen.PID, m any) error {
		if m != "go" {
			return nil
		}
		id, err := p.SpawnMeta(pm, gen.MetaOptions{})
		if err != nil {
			e.Fail("C05/unexpected-failure", "SpawnMeta: %v", err)
			close(spawned)
			return nil
		}
		for i := 0; i < c.MetaEarly; i++ {
			p.Send(id, tMsg{ID: -3})
		}
		defer close(spawned)
		switch c.EarlyEnd {
		case 1:
			if err := p.SendExitMeta(id, fmt.Errorf("xsig1")); err != nil {
				e.Fail("C05/unexpected-failure", "SendExitMeta right after SpawnMeta: %v", err)
			}
		case 2:
			return fmt.Errorf("boom1")
		case 3:
			panic("injected panic of the owner")
		}
		return nil
	}
	opid, err := n.Spawn(ProbeFactory(oh), gen.ProcessOptions{})
	if err != nil {
		e.Infra("spawn owner: " + err.Error())
		return
	}
	n.Send(opid, "go")
	if c.EarlyEnd == 4 {
		e.Go("killer", func() {
			e.WaitChan(spawned, time.Minute)
			n.Kill(opid)
		})
	}
	e.WaitClients(time.Minute)
	e.WaitChan(spawned, time.Minute)
	e.Settle(5 * time.Second)
	if e.Failed() {
		return
	}
	e.Probe("cause-exit")
	log := mh.CallbackLog()
	tc := int(mh.TermCount.Load())
	if tc != 1 {
		e.Fail("C05/terminated-without-callback", "meta early end %d: the meta-process was told to end in the callback that spawned it; its terminate callback ran %d times; callbacks: %s", c.EarlyEnd, tc, strings.Join(log, " "))
		return
	}
	seenTerm := false
	for _, cb := range log {
		if cb == "terminate" {
			seenTerm = true
		} else if seenTerm {
			e.Fail("C05/callback-after-terminate", "meta early end %d: %q of the meta-process ran after its terminate callback; callbacks: %s", c.EarlyEnd, cb, strings.Join(log, " "))
			return
		}
	}
}
