package props

import (
	"errors"
	"fmt"
	"sync"
	"time"

	"github.com/anishathalye/porcupine"

	"ergo.services/ergo/gen"

	"verifsim/simkit"
)

// C06 Registry integrity: unique identities, complete release on termination.

const (
	c06MaxNames = 3
	c06MaxProcs = 12
)

type C06Op struct {
	Op   string `json:"op"` // spawnreg | register | unregister | resolve | terminate | relate
	Name int    `json:"name"`
	Proc int    `json:"proc"` // register/terminate/relate: index into the pre-spawned processes
	How  string `json:"how,omitempty"`
}

type C06Case struct {
	Names   int       `json:"names"`
	Procs   int       `json:"procs"` // pre-spawned unnamed processes
	Clients [][]C06Op `json:"clients"`
	Mints   int       `json:"mints"` // identifier burst (0 = none)
}

type c06 struct{}

func init() { Register(c06{}) }

func (c06) ID() string    { return "C06" }
func (c06) Level() string { return "exploration" }
func (c06) NewCase() any  { return &C06Case{} }
func (c06) Nontrivial() []string {
	return []string{"concurrent-claims-of-one-name", "register-raced-termination", "release-audited", "identifier-burst"}
}
func (c06) Rule() string {
	return "case = 2-4 client actors concurrently running SpawnRegister / RegisterName / UnregisterName / resolve-by-Call / terminate / relate(link+monitor, alias, event) operations over 1-3 names and up to 12 processes, " +
		"optionally followed by a burst of 300 000 minted references plus aliases and pids. Oracles: (a) the invoke/return history (stamped with scheduler step numbers) is checked with porcupine against a sequential registry model; " +
		"(b) every minted pid/alias/ref is distinct; (c) at quiescence every terminated process is absent from listings, its name/aliases/events are claimable again, and the target manager (real implementation behind a recording wrapper) holds no relation with it as target or as requester. " +
		"Non-trivial = two claims of one name overlapped, a register raced a termination, or the release audit covered at least one terminated process with relations; distinct = distinct (schedule, history) hashes."
}
func (c06) Components() ([]string, []string) {
	return []string{"node name/alias/event tables, spawn, RegisterName, UnregisterName, unregisterProcess, MakeRef", "gen default target manager (behind a recording wrapper)"},
		[]string{"network disabled", "default logger disabled"}
}

func (c06) Generate(r *simkit.Rand, tier string) any {
	c := &C06Case{Names: r.Range(1, c06MaxNames), Procs: r.Range(2, 5)}
	maxOps := 5
	if tier == "thorough" {
		maxOps = 7
	}
	nc := r.Range(2, 4)
	for i := 0; i < nc; i++ {
		var ops []C06Op
		for j, m := 0, r.Range(1, maxOps); j < m; j++ {
			op := C06Op{Op: simkit.Pick(r, "spawnreg", "spawnreg", "register", "register", "unregister", "resolve", "resolve", "terminate", "relate", "regevent", "regevent", "unregevent"),
				Name: r.Intn(c.Names), Proc: r.Intn(c.Procs)}
			if op.Op == "regevent" || op.Op == "unregevent" {
				op.Name = r.Intn(c06Events)
			}
			if op.Op == "register" {
				// RegisterName for one process is only ever issued by one client: two concurrent
				// registrations of the same process under different names can both be refused
				// (transient 'being registered' flag), which the property does not speak about
				if i >= c.Procs {
					op.Op = "spawnreg"
				} else {
					op.Proc = i + nc*r.Intn((c.Procs-i+nc-1)/nc)
				}
			}
			if op.Op == "terminate" {
				op.How = simkit.Pick(r, "kill", "die")
			}
			ops = append(ops, op)
		}
		c.Clients = append(c.Clients, ops)
	}
	if r.Chance(0.06) {
		c.Mints = 300000
	} else if r.Chance(0.3) {
		c.Mints = r.Range(10, 2000)
	}
	return c
}

func (c06) Shrink(cc any) []any {
	c := cc.(*C06Case)
	var out []any
	for i := range c.Clients {
		if len(c.Clients) > 1 {
			n := cloneJSON(c)
			n.Clients = dropAt(n.Clients, i)
			out = append(out, n)
		}
	}
	for i := range c.Clients {
		for j := range c.Clients[i] {
			n := cloneJSON(c)
			n.Clients[i] = dropAt(n.Clients[i], j)
			out = append(out, n)
		}
	}
	if c.Mints > 0 && c.Mints != 300000 {
		n := cloneJSON(c)
		n.Mints = 0
		out = append(out, n)
	}
	return out
}

// ---- sequential model for porcupine ----

type c06State struct {
	owner   [c06MaxNames]int8 // -1 free
	named   [c06MaxProcs]int8 // -1 none
	dead    [c06MaxProcs]bool
	evOwner [c06Events]int8 // shared event names: -1 free
}

const c06Events = 2

type c06In struct {
	Op   string
	Name int
	Proc int // spawnreg: id given to the new process (valid if the op succeeded)
}

type c06Out struct {
	OK      bool
	Owner   int // resolve
	Unknown bool
	Skip    bool // outcome that carries no information (timeout)
	Err     string
	pid     gen.PID // unregister: translated to Owner once every pid is known
}

func c06Init() c06State {
	var s c06State
	for i := range s.owner {
		s.owner[i] = -1
	}
	for i := range s.named {
		s.named[i] = -1
	}
	for i := range s.evOwner {
		s.evOwner[i] = -1
	}
	return s
}

func c06Step(st, in, out interface{}) (bool, interface{}) {
	s := st.(c06State)
	i := in.(c06In)
	o := out.(c06Out)
	switch i.Op {
	case "spawnreg":
		if o.OK {
			if s.owner[i.Name] != -1 {
				return false, s
			}
			s.owner[i.Name] = int8(i.Proc)
			s.named[i.Proc] = int8(i.Name)
			return true, s
		}
		return s.owner[i.Name] != -1, s
	case "register":
		if o.Skip {
			return true, s
		}
		can := s.owner[i.Name] == -1 && s.named[i.Proc] == -1 && !s.dead[i.Proc]
		if o.OK {
			if !can {
				return false, s
			}
			s.owner[i.Name] = int8(i.Proc)
			s.named[i.Proc] = int8(i.Name)
			return true, s
		}
		return !can, s
	case "ghostclaim":
		// third reading of a registration that failed with 'process terminated' (see the
		// transient readings below): the name is reserved for a moment ...
		if s.owner[i.Name] != -1 {
			return false, s
		}
		s.owner[i.Name] = -2
		return true, s
	case "ghostrelease":
		// ... and given back when the registration is rolled back
		if s.owner[i.Name] != -2 {
			return false, s
		}
		s.owner[i.Name] = -1
		return true, s
	case "unregister":
		if o.OK {
			if s.owner[i.Name] == -1 || s.owner[i.Name] == -2 {
				return false, s
			}
			p := s.owner[i.Name]
			if o.Owner != int(p) && o.Owner != -1 {
				return false, s
			}
			s.owner[i.Name] = -1
			s.named[p] = -1
			return true, s
		}
		return s.owner[i.Name] == -1, s
	case "resolve":
		if o.Skip {
			return true, s
		}
		if o.Unknown {
			return s.owner[i.Name] == -1, s
		}
		return o.Owner >= 0 && s.owner[i.Name] == int8(o.Owner) && !s.dead[o.Owner], s
	case "regevent":
		if o.Skip {
			return true, s
		}
		if o.OK {
			if s.evOwner[i.Name] != -1 || s.dead[i.Proc] {
				return false, s
			}
			s.evOwner[i.Name] = int8(i.Proc)
			return true, s
		}
		return s.evOwner[i.Name] != -1, s
	case "unregevent":
		if o.Skip {
			return true, s
		}
		if o.OK {
			if s.evOwner[i.Name] != int8(i.Proc) {
				return false, s
			}
			s.evOwner[i.Name] = -1
			return true, s
		}
		return s.evOwner[i.Name] != int8(i.Proc), s
	case "terminate":
		if s.dead[i.Proc] {
			return true, s
		}
		for k := range s.evOwner {
			if s.evOwner[k] == int8(i.Proc) {
				s.evOwner[k] = -1
			}
		}
		s.dead[i.Proc] = true
		if n := s.named[i.Proc]; n != -1 {
			s.owner[n] = -1
			s.named[i.Proc] = -1
		}
		return true, s
	}
	return true, s
}

type c06Ping int

// c06EvOp asks a process to claim (or give up) one of the shared event names.
type c06EvOp struct {
	K     int
	Unreg bool
	Reply chan error
}

var c06EventNames = []gen.Atom{"se0", "se1"}

// recording wrapper around the real target manager
type c06TM struct {
	gen.TargetManager
}

func (c06) Run(e *simkit.Env, cc any) {
	c := cc.(*C06Case)
	tm := gen.CreateDefaultTargetManager()
	n := simkit.StartLocalNode(e, "c06@sim", func(o *gen.NodeOptions) { o.TargetManager = tm })
	if n == nil {
		return
	}
	defer simkit.StopNode(e, n, false, 0)
	var mu sync.Mutex
	type proc struct {
		id       int
		failed   bool
		pid      gen.PID
		termDone chan struct{}
		h        *Hooks
		aliases  []gen.Alias
		events   []gen.Atom
		metas    []gen.Alias
		metaH    []*Hooks
		related  bool
	}
	var procs []*proc
	names := []gen.Atom{"n0", "n1", "n2"}
	logical := map[gen.PID]int{}
	var history []porcupine.Operation
	record := func(client int, in c06In, out c06Out, call, ret int) {
		mu.Lock()
		history = append(history, porcupine.Operation{ClientId: client, Input: in, Output: out, Call: int64(call), Return: int64(ret)})
		mu.Unlock()
		e.Logf("c%d %s name=%d proc=%d -> ok=%v owner=%d unknown=%v skip=%v %s [%d,%d]", client, in.Op, in.Name, in.Proc, out.OK, out.Owner, out.Unknown, out.Skip, out.Err, call, ret)
	}
	pinged := map[int][]int{}      // name index -> processes that received the audit ping sent to that name
	var spentPIDs []gen.PID        // ids used by processes whose Init failed
	var kids []gen.PID             // children spawned with LinkParent / LinkChild that terminate at once
	kidsGone := map[gen.PID]bool{} // ... whose terminate callback has run
	var pendingTerm sync.Map       // proc index -> call step of the first terminate op
	newProc := func() *proc {
		p := &proc{termDone: make(chan struct{})}
		mu.Lock()
		p.id = len(procs)
		procs = append(procs, p)
		mu.Unlock()
		h := &Hooks{Name: "p", Env: e, Trap: true}
		h.Call = func(pp *Probe, from gen.PID, ref gen.Ref, req any) (any, error) {
			return p.id + 1000, nil
		}
		h.Message = func(pp *Probe, from gen.PID, m any) error {
			switch v := m.(type) {
			case string:
				switch v {
				case "die":
					// leave the meta-processes something to do while their owner goes away
					for _, ma := range p.metas {
						pp.SendWithPriority(ma, "bye", []gen.MessagePriority{gen.MessagePriorityNormal, gen.MessagePriorityHigh}[p.id%2])
					}
					return fmt.Errorf("boom")
				case "relate":
					a, err := pp.CreateAlias()
					if err == nil {
						p.aliases = append(p.aliases, a)
					}
					ev := gen.Atom(fmt.Sprintf("ev-%d", pp.PID().ID))
					if _, err := pp.RegisterEvent(ev, gen.EventOptions{}); err == nil {
						p.events = append(p.events, ev)
					}
					mh := &Hooks{Name: fmt.Sprintf("p%d-meta", p.id), Env: e}
					if ma, err := pp.SpawnMeta(NewProbeMeta(mh), gen.MetaOptions{}); err == nil {
						p.metas = append(p.metas, ma)
						p.metaH = append(p.metaH, mh)
					}
					// a spawn that fails in Init: the id it used is spent, nobody else may get it
					fh := &Hooks{Name: "failing", Env: e}
					fh.Init = func(fp *Probe, args ...any) error {
						mu.Lock()
						spentPIDs = append(spentPIDs, fp.PID())
						mu.Unlock()
						return fmt.Errorf("init fails")
					}
					if _, err := pp.Spawn(ProbeFactory(fh), gen.ProcessOptions{}); err == nil {
						e.Fail("C06/unexpected-failure", "Spawn of a process whose Init fails succeeded")
					}
					// a child that is linked to this process from its birth (the child is the requester)
					// and goes away before it
					kh := &Hooks{Name: "kid", Env: e, Trap: true}
					kh.Message = func(kp *Probe, from gen.PID, m any) error {
						if m == "die" {
							return gen.TerminateReasonNormal
						}
						return nil
					}
					kh.Terminate = func(kp *Probe, reason error) {
						mu.Lock()
						kidsGone[kp.PID()] = true
						mu.Unlock()
					}
					opts := gen.ProcessOptions{LinkParent: p.id%2 == 0, LinkChild: p.id%2 == 1}
					if kid, err := pp.Spawn(ProbeFactory(kh), opts); err == nil {
						mu.Lock()
						kids = append(kids, kid)
						mu.Unlock()
						pp.Send(kid, "die")
					}
				}
			case c06EvOp:
				var err error
				if v.Unreg {
					err = pp.UnregisterEvent(c06EventNames[v.K])
				} else {
					_, err = pp.RegisterEvent(c06EventNames[v.K], gen.EventOptions{})
				}
				v.Reply <- err
			case c06Ping:
				mu.Lock()
				pinged[int(v)] = append(pinged[int(v)], p.id)
				mu.Unlock()
			case gen.PID:
				// become a requester: link and monitor the given process
				pp.LinkPID(v)
				pp.MonitorPID(v)
				p.related = true
			}
			return nil
		}
		h.Terminate = func(pp *Probe, reason error) { close(p.termDone) }
		p.h = h
		return p
	}
	addProc := func(p *proc, pid gen.PID) int {
		mu.Lock()
		defer mu.Unlock()
		p.pid = pid
		logical[pid] = p.id
		return p.id
	}
	for i := 0; i < c.Procs; i++ {
		p := newProc()
		pid, err := n.Spawn(ProbeFactory(p.h), gen.ProcessOptions{})
		if err != nil {
			e.Infra("spawn: " + err.Error())
			return
		}
		addProc(p, pid)
	}
	e.Settle(time.Millisecond)

	for ci, ops := range c.Clients {
		ci, ops := ci, ops
		who := fmt.Sprintf("cl%d", ci)
		h := &Hooks{Name: who, Env: e, Trap: true}
		done := make(chan struct{})
		h.Message = func(pp *Probe, from gen.PID, m any) error {
			if m != "go" {
				return nil
			}
			defer close(done)
			for _, op := range ops {
				call := e.Step()
				in := c06In{Op: op.Op, Name: op.Name, Proc: op.Proc}
				var out c06Out
				switch op.Op {
				case "spawnreg":
					mu.Lock()
					full := len(procs) >= c06MaxProcs
					mu.Unlock()
					if full {
						continue
					}
					p := newProc()
					pid, err := pp.SpawnRegister(names[op.Name], ProbeFactory(p.h), gen.ProcessOptions{})
					if err == nil {
						in.Proc = addProc(p, pid)
						out.OK = true
					} else {
						p.failed = true
						out.Err = err.Error()
						if !errors.Is(err, gen.ErrTaken) {
							e.Fail("C06/unexpected-failure", "SpawnRegister(%s) failed with %v (only 'taken' is a legal refusal)", names[op.Name], err)
						}
					}
				case "register":
					err := n.RegisterName(names[op.Name], procs[op.Proc].pid)
					out.OK = err == nil
					if err != nil {
						out.Err = err.Error()
					}
				case "unregister":
					pid, err := n.UnregisterName(names[op.Name])
					out.OK = err == nil
					if err == nil {
						out.pid = pid
						if pid == (gen.PID{}) {
							// the name belonged to a process whose spawn is still in progress: no id yet.
							// The property does not speak about the returned id; accept any owner.
							out.Owner = -1
						}
					} else {
						out.Err = err.Error()
					}
				case "resolve":
					v, err := pp.CallWithTimeout(names[op.Name], "who", 2)
					switch {
					case err == nil:
						out.OK = true
						out.Owner = v.(int) - 1000
					case errors.Is(err, gen.ErrProcessUnknown):
						out.Unknown = true
					default:
						// terminated owner / timeout: the name was bound to a process that is going away
						out.Skip = true
						out.Err = err.Error()
					}
				case "regevent", "unregevent":
					p := procs[op.Proc]
					reply := make(chan error, 1)
					if err := n.Send(p.pid, c06EvOp{K: op.Name, Unreg: op.Op == "unregevent", Reply: reply}); err != nil {
						out.Skip = true // the process is gone
						break
					}
					tm := time.NewTimer(30 * time.Second)
					select {
					case err := <-reply:
						out.OK = err == nil
						if err != nil {
							out.Err = err.Error()
							// only the refusals that speak about the event name carry information
							// (a process on its way out answers 'not allowed')
							if !errors.Is(err, gen.ErrTaken) && !errors.Is(err, gen.ErrEventUnknown) && !errors.Is(err, gen.ErrEventOwner) {
								out.Skip = true
							}
						}
					case <-tm.C:
						out.Skip = true // terminated before it got to the request
					}
					tm.Stop()
					e.Gate("c06:evop-done")
				case "terminate":
					p := procs[op.Proc]
					if _, loaded := pendingTerm.LoadOrStore(op.Proc, call); loaded {
						// someone else terminates it; wait for completion as well
					}
					if op.How == "kill" {
						n.Kill(p.pid)
					} else {
						n.Send(p.pid, "die")
					}
					if !e.WaitChan(p.termDone, time.Minute) {
						e.Fail("C06/terminate-hangs", "process %d was told to terminate (%s) and did not within a simulated minute", op.Proc, op.How)
						return nil
					}
					out.OK = true
				case "relate":
					// give the process identities and make it a requester of another process
					p := procs[op.Proc]
					n.Send(p.pid, "relate")
					other := procs[(op.Proc+1)%c.Procs]
					n.Send(p.pid, other.pid)
					n.Send(other.pid, p.pid)
					continue
				}
				record(ci, in, out, call, e.Step())
			}
			return nil
		}
		pid, err := n.Spawn(ProbeFactory(h), gen.ProcessOptions{})
		if err != nil {
			e.Infra("spawn client: " + err.Error())
			return
		}
		e.Go(who+"-kick", func() {
			n.Send(pid, "go")
			e.WaitChan(done, 10*time.Minute)
		})
	}
	if !e.WaitClients(20 * time.Minute) {
		e.Fail("C06/client-stuck", "a client did not finish")
		return
	}
	e.Settle(10 * time.Second)
	if e.Failed() {
		return
	}

	// (a) linearizability of the name registry
	mu.Lock()
	hist := append([]porcupine.Operation(nil), history...)
	for i := range hist {
		if o := hist[i].Output.(c06Out); o.pid != (gen.PID{}) {
			o.Owner = logical[o.pid]
			o.pid = gen.PID{}
			hist[i].Output = o
		}
	}
	mu.Unlock()
	overlapClaims := false
	raced := false
	for i, a := range hist {
		ai := a.Input.(c06In)
		for j, b := range hist {
			if i >= j {
				continue
			}
			bi := b.Input.(c06In)
			overlap := a.Call <= b.Return && b.Call <= a.Return
			if !overlap {
				continue
			}
			claim := func(op string) bool { return op == "spawnreg" || op == "register" }
			if claim(ai.Op) && claim(bi.Op) && ai.Name == bi.Name {
				overlapClaims = true
			}
			if (ai.Op == "register" && bi.Op == "terminate" && ai.Proc == bi.Proc) || (bi.Op == "register" && ai.Op == "terminate" && ai.Proc == bi.Proc) {
				raced = true
			}
		}
	}
	// UnregisterName removes the name from the table and then clears the owner's own "I am
	// registered" flag: a RegisterName on behalf of that very process issued in between is refused
	// as 'taken' although the name no longer resolves. The property does not speak about this
	// flag; such a refusal (and only it) carries no information for the registry model.
	for i, a := range hist {
		ai, ao := a.Input.(c06In), a.Output.(c06Out)
		if ai.Op != "register" || ao.OK || ao.Err != gen.ErrTaken.Error() {
			continue
		}
		for _, b := range hist {
			bi, bo := b.Input.(c06In), b.Output.(c06Out)
			if bi.Op == "unregister" && bo.OK && bo.Owner == ai.Proc && a.Call <= b.Return && b.Call <= a.Return {
				ao.Skip = true
				hist[i].Output = ao
				e.Probe("register-refused-during-own-unregister")
				break
			}
		}
	}
	// A registration on behalf of a process that turns out to be terminated holds the name
	// for a moment before it is rolled back (competing claims are refused as 'taken', an
	// UnregisterName can even take it away). Such an operation is judged under three readings:
	// as a plain failure, as a success that the termination of the process then releases, and
	// - when the process was gone before the name was reserved - as a reservation that is
	// given back within the call (two steps inside its interval; a name that stays reserved
	// is not explained by it).
	var transient []int
	for i, a := range hist {
		ai, ao := a.Input.(c06In), a.Output.(c06Out)
		if ai.Op == "register" && !ao.OK && (ao.Err == gen.ErrProcessTerminated.Error() || ao.Err == gen.ErrProcessUnknown.Error()) {
			transient = append(transient, i)
		}
	}
	if len(transient) > 4 {
		transient = transient[:4]
	}
	if overlapClaims {
		e.Probe("concurrent-claims-of-one-name")
	}
	if raced {
		e.Probe("register-raced-termination")
	}
	model := porcupine.Model{
		Init:  func() interface{} { return c06Init() },
		Step:  c06Step,
		Equal: func(a, b interface{}) bool { return a.(c06State) == b.(c06State) },
		DescribeOperation: func(in, out interface{}) string {
			return fmt.Sprintf("%+v -> %+v", in, out)
		},
	}
	// A terminating process gives up its name and its events one after the other; the property
	// asks for each identity to be consistent, not for the release of all of them to be one atomic
	// step: the registered names and the shared event names are checked as two histories (the
	// terminations take part in both).
	isEv := func(op string) bool { return op == "regevent" || op == "unregevent" }
	for part := 0; part < 2 && len(hist) > 0; part++ {
		keep := make([]bool, len(hist))
		any := false
		for i, o := range hist {
			op := o.Input.(c06In).Op
			keep[i] = op == "terminate" || isEv(op) == (part == 1)
			if keep[i] && op != "terminate" {
				any = true
			}
		}
		if !any {
			continue
		}
		res := porcupine.Illegal
		nvar := 1
		for range transient {
			nvar *= 3
		}
		for mask := 0; mask < nvar && res == porcupine.Illegal; mask++ {
			var variant []porcupine.Operation
			for i, o := range hist {
				if !keep[i] {
					continue
				}
				reading, m := 0, mask
				for _, idx := range transient {
					if idx == i {
						reading = m % 3
					}
					m /= 3
				}
				switch reading {
				case 1:
					out := o.Output.(c06Out)
					out.OK = true
					o.Output = out
				case 2:
					in := o.Input.(c06In)
					claim, release := o, o
					claim.Input = c06In{Op: "ghostclaim", Name: in.Name, Proc: in.Proc}
					release.Input = c06In{Op: "ghostrelease", Name: in.Name, Proc: in.Proc}
					variant = append(variant, claim)
					o = release
					e.Probe("transient-reservation-reading-tried")
				}
				variant = append(variant, o)
			}
			res = porcupine.CheckOperationsTimeout(model, variant, 10*time.Second)
			if part == 1 {
				break // the transient readings concern name registrations only
			}
		}
		switch res {
		case porcupine.Illegal:
			desc := ""
			for i, o := range hist {
				if !keep[i] {
					continue
				}
				in, ou := o.Input.(c06In), o.Output.(c06Out)
				desc += fmt.Sprintf(" c%d:%s(n%d,p%d)=%s[%d,%d]", o.ClientId, in.Op, in.Name, in.Proc, c06OutStr(ou), o.Call, o.Return)
			}
			what := "name registry"
			if part == 1 {
				what = "event name registry"
			}
			e.Fail("C06/not-linearizable", "%s history has no sequential explanation:%s", what, desc)
			return
		case porcupine.Unknown:
			e.Probe("linearizability-check-timed-out")
		}
	}

	// nothing in this workload panics on purpose: a panic raised by code of the repository while a
	// name / alias / event is resolved means the identity resolved to something that is not a live process
	if ps := e.InternalPanics(); len(ps) > 0 {
		e.Fail("C06/resolve-panic", "code of the repository panicked while the registry was used: %s", ps[0])
		return
	}
	// (c) release audit
	mu.Lock()
	ps := append([]*proc(nil), procs...)
	mu.Unlock()
	list, _ := n.ProcessList()
	inList := map[gen.PID]bool{}
	for _, p := range list {
		inList[p] = true
	}
	audited := false
	for i, p := range ps {
		if p.failed {
			continue
		}
		select {
		case <-p.termDone:
		default:
			continue // still alive
		}
		if inList[p.pid] {
			e.Fail("C06/terminated-but-listed", "process %d has run its terminate callback but is still in ProcessList", i)
			return
		}
		if _, err := n.ProcessInfo(p.pid); err == nil {
			e.Fail("C06/terminated-but-listed", "process %d has terminated but ProcessInfo still answers", i)
			return
		}
		for _, a := range p.aliases {
			if err := n.Send(a, "x"); err == nil {
				e.Fail("C06/alias-not-released", "alias of terminated process %d still accepts messages", i)
				return
			}
		}
		for _, ev := range p.events {
			if _, err := n.RegisterEvent(ev, gen.EventOptions{}); err != nil {
				e.Fail("C06/event-not-released", "event %s of terminated process %d cannot be registered again: %v", ev, i, err)
				return
			}
			n.UnregisterEvent(ev)
		}
		for k, ma := range p.metas {
			if err := n.Send(ma, "x"); err == nil {
				e.Fail("C06/meta-not-released", "meta-process of terminated process %d still accepts messages", i)
				return
			}
			if tc := p.metaH[k].TermCount.Load(); tc != 1 {
				e.Fail("C06/meta-not-released", "meta-process of terminated process %d ran its terminate callback %d times at quiescence", i, tc)
				return
			}
			e.Probe("meta-released")
		}
		if cons := tm.GetConsumersForTarget(p.pid); len(cons) != 0 {
			e.Fail("C06/relation-leak-target", "terminated process %d is still the target of %d relation(s)", i, len(cons))
			return
		}
		links, mons := tm.GetTargetsForConsumer(p.pid)
		if len(links)+len(mons) != 0 {
			e.Fail("C06/relation-leak-requester", "terminated process %d still appears as requester of %d link(s) and %d monitor(s)", i, len(links), len(mons))
			return
		}
		if p.related || len(p.aliases) > 0 {
			audited = true
		}
	}
	// every name must be claimable unless a live process owns it
	for ni := 0; ni < c.Names; ni++ {
		owner := gen.PID{}
		for _, p := range list {
			if info, err := n.ProcessInfo(p); err == nil && info.Name == names[ni] {
				owner = p
			}
		}
		if owner != (gen.PID{}) {
			// a live process holds the name: the name must resolve to that very process
			perr := n.Send(names[ni], c06Ping(ni))
			e.Settle(time.Second)
			mu.Lock()
			got := append([]int(nil), pinged[ni]...)
			want := logical[owner]
			mu.Unlock()
			if perr != nil || len(got) != 1 || got[0] != want {
				e.Fail("C06/name-does-not-resolve-to-owner", "at quiescence live process %d reports %s as its registered name, but a message sent to that name returned %v and was received by %v", want, names[ni], perr, got)
				return
			}
			e.Probe("owner-resolution-audited")
			continue
		}
		pid, err := n.SpawnRegister(names[ni], ProbeFactory(&Hooks{Name: "claimer"}), gen.ProcessOptions{})
		if err != nil {
			e.Fail("C06/name-not-released", "no live process owns name %s at quiescence but it cannot be claimed: %v", names[ni], err)
			return
		}
		n.Kill(pid)
	}
	if audited {
		e.Probe("release-audited")
	}

	// (b) identifier uniqueness
	if c.Mints > 0 {
		e.Probe("identifier-burst")
		seen := make(map[gen.Ref]int, c.Mints)
		for i := 0; i < c.Mints; i++ {
			r := n.MakeRef()
			if j, dup := seen[r]; dup {
				e.Fail("C06/identifier-repeated", "MakeRef returned the same reference for mint %d and mint %d of one node incarnation", j, i)
				return
			}
			seen[r] = i
		}
	}
	// process ids: those of the workload's processes, of the short-lived children and those spent by
	// spawns that failed in Init are all different
	{
		pids := map[gen.PID]string{}
		add := func(pid gen.PID, what string) bool {
			if prev, dup := pids[pid]; dup {
				e.Fail("C06/identifier-repeated", "the process id %d was given out twice: to %s and to %s", pid.ID, prev, what)
				return false
			}
			pids[pid] = what
			return true
		}
		for _, p := range ps {
			if !p.failed && !add(p.pid, fmt.Sprintf("process %d", p.id)) {
				return
			}
		}
		mu.Lock()
		ks := append([]gen.PID(nil), kids...)
		sp := append([]gen.PID(nil), spentPIDs...)
		gone := map[gen.PID]bool{}
		for k, v := range kidsGone {
			gone[k] = v
		}
		mu.Unlock()
		for _, k := range ks {
			if !add(k, "a child spawned with LinkParent/LinkChild") {
				return
			}
		}
		for _, k := range sp {
			if !add(k, "a process whose Init failed") {
				return
			}
		}
		// a terminated child appears in no relation, neither as requester (LinkParent) nor as target (LinkChild)
		for _, k := range ks {
			if !gone[k] {
				continue
			}
			links, mons := tm.GetTargetsForConsumer(k)
			if len(links)+len(mons) != 0 {
				e.Fail("C06/relation-leak-requester", "a child spawned with LinkParent has terminated and still appears as requester of %d link(s)", len(links))
				return
			}
			if cons := tm.GetConsumersForTarget(k); len(cons) != 0 {
				e.Fail("C06/relation-leak-target", "a child spawned with LinkChild has terminated and is still the target of %d relation(s)", len(cons))
				return
			}
			e.Probe("spawn-time-link-audited")
		}
	}
}

func c06OutStr(o c06Out) string {
	switch {
	case o.Skip:
		return "skip(" + o.Err + ")"
	case o.Unknown:
		return "unknown"
	case o.OK:
		return fmt.Sprintf("ok(%d)", o.Owner)
	}
	return "err(" + o.Err + ")"
}
