package props

import (
	"fmt"
	"sort"
	"strconv"
	"strings"
	"sync"
	"time"
	_ "time/tzdata"

	"ergo.services/ergo/gen"

	"verifsim/simkit"
)

// C20 Cron: jobs run exactly at the minutes their spec denotes.

type C20Job struct {
	Spec     string `json:"spec"`
	Zone     string `json:"zone"`
	Valid    bool   `json:"valid"`
	AtStart  bool   `json:"at_start"` // given in NodeOptions.Cron.Jobs
	AddAtMin int    `json:"add_at_min"`
}

type C20Op struct {
	Kind  string `json:"kind"` // disable | enable | remove
	Job   int    `json:"job"`
	AtMin int    `json:"at_min"` // minutes after start (performed 20-40 s into that minute)
}

type C20Case struct {
	StartOffsetMin int      `json:"start_offset_min"` // simulated minutes from 2000-01-01T00:00Z to the node start
	StartSecond    int      `json:"start_second"`
	WindowMin      int      `json:"window_min"`
	Jobs           []C20Job `json:"jobs"`
	Ops            []C20Op  `json:"ops"`
}

type c20 struct{}

func init() { Register(c20{}) }

func (c20) ID() string    { return "C20" }
func (c20) Level() string { return "exploration" }
func (c20) NewCase() any  { return &C20Case{} }
func (c20) Nontrivial() []string {
	return []string{"job-fired", "sparse-spec-fired", "job-disabled-or-removed-midway", "malformed-rejected", "dst-or-month-end-in-window"}
}
func (c20) Rule() string {
	return "case = 1-4 jobs with specs generated from the supported grammar (lists, ranges, steps, L, xL, x#n, both day fields restricted; list length <= 3) in UTC / America/New_York / Australia/Sydney / Asia/Kolkata, plus malformed specs; " +
		"the node is started at a drawn simulated instant between 2000 and 2004 (biased to shortly before a match of a sparse spec, month ends, 29 February and daylight-saving transitions) and its minute timer runs on the simulated clock for hours to days " +
		"while jobs are added, disabled, enabled and removed at drawn instants. Oracle: an independent crontab evaluator; the set of minutes at which MessageCron arrives (and MessageCron.Time), JobSchedule and Schedule must equal the evaluator's minutes " +
		"for the periods in which the job was active; malformed specs must be rejected by AddJob. Non-trivial = at least one job fired, or a sparse spec fired, or a job was switched midway; distinct = distinct (schedule, history) hashes."
}
func (c20) Components() ([]string, []string) {
	return []string{"node/cron.go minute timer and spool", "node/cron_parse.go", "gen cron message action"}, []string{"wall clock = testing/synctest fake clock (no clock adjustments)", "network disabled"}
}

// ---- independent crontab evaluator ----

type c20Field struct {
	any   bool
	set   map[int]bool
	last  bool         // day: L
	lastW map[int]bool // weekday: xL
	nth   [][2]int     // weekday: x#n
}

type c20Spec struct{ min, hour, day, month, wday c20Field }

func c20ParseField(f string, lo, hi int, kind string) (c20Field, error) {
	out := c20Field{set: map[int]bool{}, lastW: map[int]bool{}}
	if f == "*" {
		out.any = true
		return out, nil
	}
	num := func(s string, lo, hi int) (int, error) {
		if s == "" {
			return 0, fmt.Errorf("empty")
		}
		for _, ch := range s {
			if ch < '0' || ch > '9' {
				return 0, fmt.Errorf("not a number %q", s)
			}
		}
		n, err := strconv.Atoi(s)
		if err != nil || n < lo || n > hi {
			return 0, fmt.Errorf("out of range %q", s)
		}
		return n, nil
	}
	for _, item := range strings.Split(f, ",") {
		switch {
		case item == "*":
			return out, fmt.Errorf("wildcard in a list")
		case item == "L" && kind == "day":
			out.last = true
		case strings.HasPrefix(item, "*/") && kind != "wday":
			n, err := num(item[2:], 1, hi)
			if err != nil {
				return out, err
			}
			for x := lo; x <= hi; x += n {
				out.set[x] = true
			}
		case strings.HasSuffix(item, "L") && kind == "wday":
			n, err := num(item[:len(item)-1], 1, 7)
			if err != nil {
				return out, err
			}
			out.lastW[n] = true
		case strings.Contains(item, "#") && kind == "wday":
			p := strings.SplitN(item, "#", 2)
			w, err := num(p[0], 1, 7)
			if err != nil {
				return out, err
			}
			k, err := num(p[1], 1, 5)
			if err != nil {
				return out, err
			}
			out.nth = append(out.nth, [2]int{w, k})
		case strings.Contains(item, "-"):
			step := 1
			rng := item
			if i := strings.Index(item, "/"); i >= 0 {
				if kind == "month" || kind == "wday" {
					return out, fmt.Errorf("step not supported here")
				}
				s, err := num(item[i+1:], 1, hi)
				if err != nil {
					return out, err
				}
				step = s
				rng = item[:i]
			}
			p := strings.SplitN(rng, "-", 2)
			a, err := num(p[0], lo, hi)
			if err != nil {
				return out, err
			}
			b, err := num(p[1], lo, hi)
			if err != nil {
				return out, err
			}
			if a > b {
				return out, fmt.Errorf("reversed range")
			}
			for x := a; x <= b; x += step {
				out.set[x] = true
			}
		default:
			n, err := num(item, lo, hi)
			if err != nil {
				return out, err
			}
			out.set[n] = true
		}
	}
	return out, nil
}

func c20Parse(spec string) (*c20Spec, error) {
	fs := strings.Fields(spec)
	if len(fs) != 5 {
		return nil, fmt.Errorf("need 5 fields")
	}
	var s c20Spec
	var err error
	if s.min, err = c20ParseField(fs[0], 0, 59, "min"); err != nil {
		return nil, err
	}
	if s.hour, err = c20ParseField(fs[1], 0, 23, "hour"); err != nil {
		return nil, err
	}
	if s.day, err = c20ParseField(fs[2], 1, 31, "day"); err != nil {
		return nil, err
	}
	if s.month, err = c20ParseField(fs[3], 1, 12, "month"); err != nil {
		return nil, err
	}
	if s.wday, err = c20ParseField(fs[4], 1, 7, "wday"); err != nil {
		return nil, err
	}
	return &s, nil
}

func daysIn(y int, m time.Month) int { return time.Date(y, m+1, 0, 0, 0, 0, 0, time.UTC).Day() }

// matches: t is an instant already converted to the job's location.
func (s *c20Spec) matches(t time.Time) bool {
	if !s.min.any && !s.min.set[t.Minute()] {
		return false
	}
	if !s.hour.any && !s.hour.set[t.Hour()] {
		return false
	}
	if !s.month.any && !s.month.set[int(t.Month())] {
		return false
	}
	wd := int(t.Weekday())
	if wd == 0 {
		wd = 7
	}
	dim := daysIn(t.Year(), t.Month())
	dayOK := func() bool {
		if s.day.set[t.Day()] {
			return true
		}
		return s.day.last && t.Day() == dim
	}
	wdayOK := func() bool {
		if s.wday.set[wd] {
			return true
		}
		if s.wday.lastW[wd] && t.Day()+7 > dim {
			return true
		}
		for _, p := range s.wday.nth {
			if p[0] == wd && (t.Day()-1)/7+1 == p[1] {
				return true
			}
		}
		return false
	}
	switch {
	case s.day.any && s.wday.any:
		return true
	case s.day.any:
		return wdayOK()
	case s.wday.any:
		return dayOK()
	}
	return dayOK() || wdayOK()
}

// ---- generator ----

func genField(r *simkit.Rand, lo, hi int, kind string, dense bool) string {
	if r.Chance(0.35) || (dense && kind != "min" && r.Chance(0.7)) {
		return "*"
	}
	n := r.Range(1, 3)
	var items []string
	for i := 0; i < n; i++ {
		switch k := r.Intn(10); {
		case k < 4:
			items = append(items, strconv.Itoa(r.Range(lo, hi)))
		case k < 6:
			a := r.Range(lo, hi)
			b := r.Range(a, hi)
			items = append(items, fmt.Sprintf("%d-%d", a, b))
		case k < 7 && kind != "wday":
			items = append(items, fmt.Sprintf("*/%d", r.Range(1, (hi-lo)/2+1)))
		case k < 8 && kind != "month" && kind != "wday":
			a := r.Range(lo, hi)
			b := r.Range(a, hi)
			items = append(items, fmt.Sprintf("%d-%d/%d", a, b, r.Range(1, 7)))
		case k < 9 && kind == "day":
			items = append(items, "L")
		case kind == "wday" && r.Bool():
			items = append(items, fmt.Sprintf("%dL", r.Range(1, 7)))
		case kind == "wday":
			items = append(items, fmt.Sprintf("%d#%d", r.Range(1, 7), r.Range(1, 5)))
		default:
			items = append(items, strconv.Itoa(r.Range(lo, hi)))
		}
	}
	return strings.Join(items, ",")
}

func genSpec(r *simkit.Rand, dense bool) string {
	minute := genField(r, 0, 59, "min", dense)
	if dense && minute != "*" && r.Bool() {
		minute = fmt.Sprintf("*/%d", r.Range(1, 7))
	}
	return strings.Join([]string{minute, genField(r, 0, 23, "hour", dense), genField(r, 1, 31, "day", dense),
		genField(r, 1, 12, "month", dense), genField(r, 1, 7, "wday", dense)}, " ")
}

func breakSpec(r *simkit.Rand, spec string) string {
	fs := strings.Fields(spec)
	switch r.Intn(6) {
	case 0:
		return strings.Join(fs[:4], " ")
	case 1:
		fs[0] = "60"
	case 2:
		fs[1] = "7-3"
	case 3:
		fs[2] = "0"
	case 4:
		fs[3] = "13"
	default:
		fs[4] = "x"
	}
	return strings.Join(fs, " ")
}

var c20Zones = []string{"UTC", "America/New_York", "Australia/Sydney", "Asia/Kolkata", "Europe/Berlin", "America/Sao_Paulo"}

var (
	c20TransMu sync.Mutex
	c20Trans   = map[string][]time.Time{}
)

// c20Transitions: the instants (UTC, to the hour) between 2000 and 2004 at which the
// zone's UTC offset changes.
func c20Transitions(zone string) []time.Time {
	c20TransMu.Lock()
	defer c20TransMu.Unlock()
	if t, ok := c20Trans[zone]; ok {
		return t
	}
	var out []time.Time
	loc, err := time.LoadLocation(zone)
	if err == nil {
		t := c20Base
		_, prev := t.In(loc).Zone()
		for t.Year() < 2005 {
			t = t.Add(time.Hour)
			if _, off := t.In(loc).Zone(); off != prev {
				out = append(out, t)
				prev = off
			}
		}
	}
	c20Trans[zone] = out
	return out
}

var c20Base = time.Date(2000, 1, 1, 0, 0, 0, 0, time.UTC)

func (c20) Generate(r *simkit.Rand, tier string) any {
	c := &C20Case{StartSecond: r.Range(0, 59)}
	c.WindowMin = simkit.Pick(r, 90, 180, 360, 1440)
	if tier == "thorough" {
		c.WindowMin = simkit.Pick(r, 180, 1440, 2880, 4320)
	}
	nj := r.Range(1, 4)
	for i := 0; i < nj; i++ {
		j := C20Job{Spec: genSpec(r, i > 0 || r.Bool()), Zone: simkit.Pick(r, c20Zones...), Valid: true, AtStart: r.Chance(0.4)}
		if !j.AtStart {
			j.AddAtMin = r.Range(0, c.WindowMin/3)
		}
		if r.Chance(0.12) {
			j.Spec = breakSpec(r, j.Spec)
			j.Valid = false
		}
		c.Jobs = append(c.Jobs, j)
	}
	// start: shortly before a match of job 0 (so that sparse specs are observed), or at special instants
	if r.Chance(0.15) {
		// a daylight-saving transition day (23 or 25 hours long) in job 0's zone, with a spec
		// whose hour field selects the hours around the transition and a day field that needs
		// date arithmetic ("L", "xL", "x#n", a plain day) - observed from the evening before
		// until the day after
		zone := simkit.Pick(r, "America/New_York", "Australia/Sydney", "Europe/Berlin", "Europe/Berlin", "America/Sao_Paulo")
		tr := c20Transitions(zone)
		if len(tr) > 0 {
			at := tr[r.Intn(len(tr))]
			loc, _ := time.LoadLocation(zone)
			lt := at.In(loc)
			day := simkit.Pick(r, "*", "*", "L", "L", fmt.Sprint(lt.Day()), fmt.Sprint(lt.Add(-20*time.Hour).Day()))
			wday := "*"
			if r.Chance(0.3) {
				day = "*"
				wd := int(lt.Weekday())
				if wd == 0 {
					wd = 7
				}
				wday = simkit.Pick(r, fmt.Sprint(wd), fmt.Sprintf("%dL", wd), fmt.Sprintf("%d#%d", wd, (lt.Day()-1)/7+1))
			}
			hour := simkit.Pick(r, "0", "23", "0,23", "1", "2", "3", "0-3", "*", "22-23")
			minute := simkit.Pick(r, "0", "30", "*/15", "59")
			c.Jobs[0].Spec = strings.Join([]string{minute, hour, day, "*", wday}, " ")
			c.Jobs[0].Zone = zone
			c.Jobs[0].Valid = true
			c.Jobs[0].AtStart = true
			c.Jobs[0].AddAtMin = 0
			c.WindowMin = simkit.Pick(r, 2880, 3600)
			c.StartOffsetMin = int(at.Sub(c20Base).Minutes()) - r.Range(24*60, 30*60)
			if c.StartOffsetMin < 0 {
				c.StartOffsetMin = 0
			}
			for i, n := 0, r.Range(0, 2); i < n; i++ {
				c.Ops = append(c.Ops, C20Op{Kind: simkit.Pick(r, "disable", "enable", "remove", "disable"), Job: r.Intn(nj), AtMin: r.Range(1, c.WindowMin-1)})
			}
			sort.Slice(c.Ops, func(i, j int) bool { return c.Ops[i].AtMin < c.Ops[j].AtMin })
			return c
		}
	}
	switch r.Intn(5) {
	case 0:
		// around month ends, 29 Feb 2000, DST transitions 2000-2003 (US: first Sunday of April / last of October; AU: last Sunday of March / October)
		special := []time.Time{
			time.Date(2000, 2, 28, 22, 0, 0, 0, time.UTC), time.Date(2000, 2, 29, 22, 0, 0, 0, time.UTC),
			time.Date(2000, 4, 2, 5, 0, 0, 0, time.UTC), time.Date(2000, 10, 29, 4, 0, 0, 0, time.UTC),
			time.Date(2000, 3, 25, 14, 0, 0, 0, time.UTC), time.Date(2000, 10, 28, 14, 0, 0, 0, time.UTC),
			time.Date(2001, 12, 31, 22, 0, 0, 0, time.UTC), time.Date(2003, 2, 28, 20, 0, 0, 0, time.UTC),
			time.Date(2000, 4, 30, 21, 0, 0, 0, time.UTC),
		}
		c.StartOffsetMin = int(special[r.Intn(len(special))].Sub(c20Base).Minutes()) - r.Range(0, 120)
		if c.StartOffsetMin < 0 {
			c.StartOffsetMin = 0
		}
	case 1:
		c.StartOffsetMin = r.Range(0, 4*365*1440)
	default:
		c.StartOffsetMin = r.Range(0, 3*365*1440)
		if s, err := c20Parse(c.Jobs[0].Spec); err == nil {
			loc, _ := time.LoadLocation(c.Jobs[0].Zone)
			t := c20Base.Add(time.Duration(c.StartOffsetMin) * time.Minute)
			for k := 0; k < 500*1440; k++ {
				if s.matches(t.In(loc)) {
					back := r.Range(5, c.WindowMin/2)
					c.StartOffsetMin = int(t.Sub(c20Base).Minutes()) - back
					if c.StartOffsetMin < 0 {
						c.StartOffsetMin = 0
					}
					break
				}
				t = t.Add(time.Minute)
			}
		}
	}
	for i, n := 0, r.Range(0, 3); i < n; i++ {
		c.Ops = append(c.Ops, C20Op{Kind: simkit.Pick(r, "disable", "enable", "remove", "disable"), Job: r.Intn(nj), AtMin: r.Range(1, c.WindowMin-1)})
	}
	sort.Slice(c.Ops, func(i, j int) bool { return c.Ops[i].AtMin < c.Ops[j].AtMin })
	return c
}

func (c20) Shrink(cc any) []any {
	c := cc.(*C20Case)
	var out []any
	for i := range c.Ops {
		n := cloneJSON(c)
		n.Ops = dropAt(n.Ops, i)
		out = append(out, n)
	}
	if len(c.Jobs) > 1 {
		for i := range c.Jobs {
			n := cloneJSON(c)
			n.Jobs = dropAt(n.Jobs, i)
			var ops []C20Op
			for _, o := range n.Ops {
				if o.Job == i {
					continue
				}
				if o.Job > i {
					o.Job--
				}
				ops = append(ops, o)
			}
			n.Ops = ops
			out = append(out, n)
		}
	}
	if c.WindowMin > 90 {
		n := cloneJSON(c)
		n.WindowMin = c.WindowMin / 2
		out = append(out, n)
	}
	return out
}

func (c20) Sched(r *simkit.Rand, c any) simkit.SchedSpec {
	s := DefaultSched(r, 3000)
	s.MaxSteps = 4000000
	return s
}

func (c20) Run(e *simkit.Env, cc any) {
	c := cc.(*C20Case)
	e.SetSimLimit(time.Duration(c.StartOffsetMin+c.WindowMin+100000) * time.Minute)
	time.Sleep(time.Duration(c.StartOffsetMin)*time.Minute + time.Duration(c.StartSecond)*time.Second)
	e.Gate("harness:start-instant")
	start := time.Now()
	var mu sync.Mutex
	fired := map[int][]time.Time{} // job -> arrival minute (truncated now)
	firedAT := map[int][]time.Time{}
	specs := make([]*c20Spec, len(c.Jobs))
	locs := make([]*time.Location, len(c.Jobs))
	for i, j := range c.Jobs {
		loc, err := time.LoadLocation(j.Zone)
		if err != nil {
			e.Infra("LoadLocation " + j.Zone + ": " + err.Error())
			return
		}
		locs[i] = loc
		s, perr := c20Parse(j.Spec)
		if (perr == nil) != j.Valid {
			e.Infra(fmt.Sprintf("generator and evaluator disagree about validity of %q: %v", j.Spec, perr))
			return
		}
		specs[i] = s
	}
	mkJob := func(i int) gen.CronJob {
		return gen.CronJob{Name: gen.Atom(fmt.Sprintf("job%d", i)), Spec: c.Jobs[i].Spec, Location: locs[i],
			Action: gen.CreateCronActionMessage(gen.Atom("cronrcv"), gen.MessagePriorityNormal)}
	}
	var startJobs []gen.CronJob
	for i, j := range c.Jobs {
		if j.AtStart && j.Valid {
			startJobs = append(startJobs, mkJob(i))
		}
	}
	n := simkit.StartLocalNode(e, "c20@sim", func(o *gen.NodeOptions) { o.Cron.Jobs = startJobs })
	if n == nil {
		return
	}
	defer simkit.StopNode(e, n, false, 0)
	rh := &Hooks{Name: "cronrcv", Env: e}
	rh.Message = func(p *Probe, from gen.PID, m any) error {
		if mc, ok := m.(gen.MessageCron); ok {
			var ji int
			fmt.Sscanf(string(mc.Job), "job%d", &ji)
			mu.Lock()
			fired[ji] = append(fired[ji], time.Now().Truncate(time.Minute))
			firedAT[ji] = append(firedAT[ji], mc.Time)
			mu.Unlock()
		}
		return nil
	}
	if _, err := n.SpawnRegister("cronrcv", ProbeFactory(rh), gen.ProcessOptions{}); err != nil {
		e.Infra("spawn receiver: " + err.Error())
		return
	}
	// activity intervals per job: [from, to) in wall-clock instants at which the state changed
	type change struct {
		at     time.Time
		active bool
	}
	changes := map[int][]change{}
	exists := map[int]bool{}
	for i, j := range c.Jobs {
		if j.AtStart && j.Valid {
			changes[i] = append(changes[i], change{start, true})
			exists[i] = true
		}
	}
	// timeline of actions: adds and ops, each performed 20-40 s into its minute
	type action struct {
		atMin int
		add   int
		op    *C20Op
	}
	var acts []action
	for i, j := range c.Jobs {
		if !j.AtStart {
			acts = append(acts, action{atMin: j.AddAtMin, add: i})
		}
	}
	for k := range c.Ops {
		acts = append(acts, action{atMin: c.Ops[k].AtMin, add: -1, op: &c.Ops[k]})
	}
	sort.SliceStable(acts, func(i, j int) bool { return acts[i].atMin < acts[j].atMin })
	first := start.Truncate(time.Minute)
	for _, a := range acts {
		at := first.Add(time.Duration(a.atMin)*time.Minute + 30*time.Second)
		if d := time.Until(at); d > 0 {
			e.Sleep(d)
		}
		now := time.Now()
		if a.add >= 0 {
			err := n.Cron().AddJob(mkJob(a.add))
			e.Logf("add job%d %q (%s) at %s -> %v", a.add, c.Jobs[a.add].Spec, c.Jobs[a.add].Zone, now.UTC().Format("2006-01-02T15:04:05"), err)
			if c.Jobs[a.add].Valid {
				if err != nil {
					e.Fail("C20/valid-spec-rejected", "AddJob rejected the valid spec %q: %v", c.Jobs[a.add].Spec, err)
					return
				}
				changes[a.add] = append(changes[a.add], change{now, true})
				exists[a.add] = true
			} else {
				if err == nil {
					e.Fail("C20/malformed-spec-accepted", "AddJob accepted the malformed spec %q", c.Jobs[a.add].Spec)
					return
				}
				e.Probe("malformed-rejected")
			}
			continue
		}
		name := gen.Atom(fmt.Sprintf("job%d", a.op.Job))
		var err error
		switch a.op.Kind {
		case "disable":
			err = n.Cron().DisableJob(name)
			if err == nil {
				changes[a.op.Job] = append(changes[a.op.Job], change{now, false})
			}
		case "enable":
			err = n.Cron().EnableJob(name)
			if err == nil {
				changes[a.op.Job] = append(changes[a.op.Job], change{now, true})
			}
		case "remove":
			err = n.Cron().RemoveJob(name)
			if err == nil {
				changes[a.op.Job] = append(changes[a.op.Job], change{now, false})
				exists[a.op.Job] = false
			}
		}
		if err == nil {
			e.Probe("job-disabled-or-removed-midway")
		}
		if (err == nil) != exists[a.op.Job] && a.op.Kind != "remove" {
			e.Fail("C20/job-api", "%s(job%d) returned %v but the job exists=%v", a.op.Kind, a.op.Job, err, exists[a.op.Job])
			return
		}
		e.Logf("%s job%d at %s -> %v", a.op.Kind, a.op.Job, now.UTC().Format("2006-01-02T15:04:05"), err)
	}
	end := first.Add(time.Duration(c.WindowMin)*time.Minute + 30*time.Second)
	if d := time.Until(end); d > 0 {
		e.Sleep(d)
	}
	e.Settle(time.Second)

	// ---- oracle ----
	mu.Lock()
	defer mu.Unlock()
	endT := time.Now()
	special := false
	for i, j := range c.Jobs {
		if !j.Valid {
			if len(fired[i]) > 0 {
				e.Fail("C20/malformed-job-fired", "job%d with the malformed spec %q fired", i, j.Spec)
				return
			}
			continue
		}
		// expected minutes: every minute boundary m in (start, endT] matching the spec in the job's zone while the job was active at m
		activeAt := func(m time.Time) bool {
			act := false
			for _, ch := range changes[i] {
				if !ch.at.After(m) {
					act = ch.active
				}
			}
			return act
		}
		var want []time.Time
		matchCount := 0
		for m := first.Add(time.Minute); !m.After(endT); m = m.Add(time.Minute) {
			lm := m.In(locs[i])
			if lm.Day() >= 28 || lm.Day() == 1 {
				special = true
			}
			if specs[i].matches(lm) {
				matchCount++
				if activeAt(m) {
					want = append(want, m)
				}
			}
		}
		got := append([]time.Time(nil), fired[i]...)
		sort.Slice(got, func(a, b int) bool { return got[a].Before(got[b]) })
		// set comparison (a repeated message for a matching minute is counted, not reported)
		gotSet := map[int64]int{}
		for _, g := range got {
			gotSet[g.Unix()]++
		}
		wantSet := map[int64]bool{}
		for _, w := range want {
			wantSet[w.Unix()] = true
			if gotSet[w.Unix()] == 0 {
				e.Fail("C20/missed-minute", "job%d %q (%s): no MessageCron for %s (local %s) although the spec matches and the job was active; node started %s, changes %v",
					i, j.Spec, j.Zone, w.UTC().Format("2006-01-02T15:04"), w.In(locs[i]).Format("Mon 2006-01-02T15:04"), start.UTC().Format("2006-01-02T15:04:05"), fmtChanges(changes[i]))
				return
			}
			if gotSet[w.Unix()] > 1 {
				e.Probe("duplicate-fire-same-minute")
			}
		}
		for _, g := range got {
			if !wantSet[g.Unix()] {
				e.Fail("C20/spurious-fire", "job%d %q (%s) fired at %s (local %s) which is not a minute the spec denotes while the job was active; node started %s, changes %v",
					i, j.Spec, j.Zone, g.UTC().Format("2006-01-02T15:04"), g.In(locs[i]).Format("Mon 2006-01-02T15:04"), start.UTC().Format("2006-01-02T15:04:05"), fmtChanges(changes[i]))
				return
			}
		}
		for k, at := range firedAT[i] {
			if !at.Equal(fired[i][k]) {
				e.Fail("C20/action-time", "job%d: MessageCron.Time is %s but it arrived in minute %s", i, at.UTC(), fired[i][k].UTC())
				return
			}
		}
		if len(want) > 0 {
			e.Probe("job-fired")
			if matchCount*20 < c.WindowMin {
				e.Probe("sparse-spec-fired")
			}
		}
		// JobSchedule over the window
		if exists[i] {
			sched, err := n.Cron().JobSchedule(gen.Atom(fmt.Sprintf("job%d", i)), first, time.Duration(c.WindowMin)*time.Minute)
			if err != nil {
				e.Fail("C20/job-schedule", "JobSchedule(job%d): %v", i, err)
				return
			}
			var exp []time.Time
			for m := first; m.Before(first.Add(time.Duration(c.WindowMin) * time.Minute)); m = m.Add(time.Minute) {
				if specs[i].matches(m.In(locs[i])) {
					exp = append(exp, m)
				}
			}
			if len(exp) != len(sched) {
				e.Fail("C20/job-schedule", "job%d %q (%s): JobSchedule returns %d run times for the window starting %s, the crontab rules give %d", i, j.Spec, j.Zone, len(sched), first.UTC().Format("2006-01-02T15:04"), len(exp))
				return
			}
			for k := range exp {
				if !exp[k].Equal(sched[k]) {
					e.Fail("C20/job-schedule", "job%d %q (%s): JobSchedule entry %d is %s, the crontab rules give %s", i, j.Spec, j.Zone, k, sched[k].UTC(), exp[k].UTC())
					return
				}
			}
		}
	}
	if special {
		e.Probe("dst-or-month-end-in-window")
	}
}

func fmtChanges(chs interface{}) string {
	return fmt.Sprintf("%v", chs)
}
