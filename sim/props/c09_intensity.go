package props

import "verifsim/simkit"

// C09 Restart intensity limit.

type c09 struct{}

func init() { Register(c09{}) }

func (c09) ID() string    { return "C09" }
func (c09) Level() string { return "exploration" }
func (c09) NewCase() any  { return &SupCase{} }
func (c09) Nontrivial() []string {
	return []string{"supervisor-ended-by-rule", "restart-wave"}
}
func (c09) Rule() string {
	return "case = supervisor (all four types, Permanent or Transient) with Intensity 1-5 and Period 1-6 s + a failure schedule on the simulated clock: bursts, bursts separated by a little less / more than a period fraction, " +
		"slow drips (gaps are kept off exact period multiples; a failure that lands exactly on the boundary ends the run without a verdict). After every failure the system is run to quiescence and compared with a " +
		"sliding-window reference: the supervisor must be alive with the prescribed children iff the failure does not need the (Intensity+1)-th restart within the last Period seconds, and otherwise must have stopped all " +
		"children and terminated with the 'restart intensity exceeded' reason. Non-trivial = at least one restart happened; distinct = distinct (schedule, history) hashes."
}
func (c09) Components() ([]string, []string) {
	return []string{"act.Supervisor restart intensity bookkeeping (all three state machines)", "simulated clock (testing/synctest)"}, []string{"network disabled", "default logger disabled"}
}
func (c09) Generate(r *simkit.Rand, tier string) any { return genSupCase(r, tier, true) }
func (c09) Shrink(c any) []any                       { return shrinkSupCase(c.(*SupCase)) }
func (c09) Run(e *simkit.Env, cc any)                { runSeparated("C09", e, cc.(*SupCase)) }
