module verifsim

go 1.26

require (
	ergo.services/ergo v0.0.0
	github.com/anishathalye/porcupine v1.3.0
)

replace ergo.services/ergo => /repo
