package simkit

import (
	"fmt"
	"os"
	"os/signal"
	"testing"
	"time"

	"ergo.services/ergo/act"
	"ergo.services/ergo/gen"
)

func TestMain(m *testing.M) {
	c := make(chan os.Signal, 1)
	signal.Notify(c, os.Interrupt)
	signal.Stop(c)
	os.Exit(m.Run())
}

type smokeActor struct {
	act.Actor
	got *[]int
}

func (a *smokeActor) Init(args ...any) error { a.got = args[0].(*[]int); return nil }
func (a *smokeActor) HandleMessage(from gen.PID, m any) error {
	*a.got = append(*a.got, m.(int))
	return nil
}

func smokeRun(t *testing.T, mode string, seed uint64) (Result, []int) {
	var got []int
	spec := SchedSpec{Mode: mode, Seed: seed, PreemptP: 0.2, Depth: 2, LenHint: 500}
	res := RunBubble(t, spec, seed, func(e *Env) {
		n := StartLocalNode(e, "a@sim", nil)
		pid, err := n.Spawn(func() gen.ProcessBehavior { return &smokeActor{} }, gen.ProcessOptions{}, &got)
		if err != nil {
			e.Infra(err.Error())
			return
		}
		for c := 0; c < 3; c++ {
			c := c
			e.Go(fmt.Sprintf("c%d", c), func() {
				for i := 0; i < 4; i++ {
					n.Send(pid, c*10+i)
				}
			})
		}
		e.WaitClients(time.Minute)
		e.Settle(10 * time.Second)
		StopNode(e, n, true, time.Minute)
	})
	return res, got
}

func TestSmoke(t *testing.T) {
	orders := map[string]bool{}
	start := time.Now()
	steps := 0
	for seed := uint64(1); seed <= 200; seed++ {
		for _, mode := range []string{"random", "sticky", "pct"} {
			r1, g1 := smokeRun(t, mode, seed)
			r2, g2 := smokeRun(t, mode, seed)
			if r1.Infra != "" || r1.Deadlock != "" {
				t.Fatalf("seed %d: infra %q deadlock %q", seed, r1.Infra, r1.Deadlock)
			}
			if len(g1) != 12 {
				t.Fatalf("seed %d mode %s: got %v", seed, mode, g1)
			}
			if r1.SchedHash != r2.SchedHash || fmt.Sprint(g1) != fmt.Sprint(g2) {
				t.Fatalf("seed %d mode %s nondeterministic: %x %x %v %v", seed, mode, r1.SchedHash, r2.SchedHash, g1, g2)
			}
			orders[fmt.Sprint(g1)] = true
			steps += r1.Steps + r2.Steps
		}
	}
	t.Logf("distinct orders %d, steps %d, wall %v", len(orders), steps, time.Since(start))
}
