package simkit

import (
	"fmt"
	"runtime"
	"runtime/debug"
	"strconv"
	"strings"
	"sync"
	"sync/atomic"
	"testing"
	"testing/synctest"
	"time"

	"ergo.services/ergo/lib"
)

// Violation is a property violation found by an oracle.
type Violation struct {
	Class  string `json:"class"`  // stable short string, e.g. C02/accepted-not-handled
	Detail string `json:"detail"` // failing input / history in logical names
	Step   int    `json:"step"`
}

// Result is what one simulated run produced.
type Result struct {
	Violation  *Violation `json:"violation,omitempty"`
	Infra      string     `json:"infra,omitempty"` // harness trouble (never a violation)
	OverBudget bool       `json:"over_budget,omitempty"`
	Deadlock   string     `json:"deadlock,omitempty"`
	// FrameworkPanic: a call of the public API made by the workload panicked inside the code of
	// the repository (the panic was raised there, not in the harness)
	FrameworkPanic string         `json:"framework_panic,omitempty"`
	Steps          int            `json:"steps"`
	SchedHash      uint64         `json:"sched_hash"`
	EventHash      uint64         `json:"event_hash"`
	SimTime        time.Duration  `json:"sim_time"`
	Probes         map[string]int `json:"probes,omitempty"`
	Faults         map[string]int `json:"faults,omitempty"`
	Passthrough    int            `json:"passthrough"`
	Tasks          int            `json:"tasks"`
	Decisions      []int32        `json:"-"`
	Trace          []Decision     `json:"-"`
	Events         []string       `json:"-"`
	Labels         map[string]int `json:"-"`
}

// Env is handed to the workload of a simulated run.
type Env struct {
	T *testing.T
	S *Sched
	R *Rand

	mu             sync.Mutex
	fwPanic        string
	viol           *Violation
	probes         map[string]int
	faults         map[string]int
	events         []string
	ehash          uint64
	wg             sync.WaitGroup
	t0             time.Time
	infra          string
	limit          *time.Timer
	cleanup        []func()
	panics         []string
	internalPanics []string
}

// OnCleanup registers a function that runs after the workload returned.
func (e *Env) OnCleanup(f func()) { e.cleanup = append(e.cleanup, f) }

// SetSimLimit replaces the cap on simulated time of this run (default 6h).
func (e *Env) SetSimLimit(d time.Duration) {
	if e.limit != nil {
		e.limit.Stop()
	}
	e.limit = time.AfterFunc(d, func() {
		e.Infra(fmt.Sprintf("simulated time limit of %v reached", d))
	})
}

var (
	curSched  atomic.Pointer[Sched]
	hooksOnce sync.Once
	// Progress is bumped on every scheduling decision; an external watchdog
	// reads it with the real clock.
	Progress atomic.Uint64
)

func installHooks() {
	hooksOnce.Do(func() {
		lib.VerifHook = func(id string) {
			if s := curSched.Load(); s != nil {
				s.Gate(id)
			}
		}
		lib.VerifLockHook = func(d int) {
			if s := curSched.Load(); s != nil {
				s.LockDelta(d)
			}
		}
	})
}

// Gate is a scheduling point of harness code.
func (e *Env) Gate(label string) { e.S.Gate(label) }

// Step is the global event sequence number.
func (e *Env) Step() int { return e.S.Steps() }

// Now is the simulated time since the start of the run.
func (e *Env) Now() time.Duration { return time.Since(e.t0) }

// Sleep advances simulated time (the clock only moves when every goroutine
// of the run is blocked) and re-enters scheduler control afterwards.
func (e *Env) Sleep(d time.Duration) {
	time.Sleep(d)
	e.S.Gate("harness:sleep")
}

// Settle waits until the system is quiescent: no goroutine can run and no
// timer fires within d of simulated time.
func (e *Env) Settle(d time.Duration) { e.Sleep(d) }

// Go starts a harness client goroutine under scheduler control.
func (e *Env) Go(name string, f func()) {
	e.wg.Add(1)
	seq := lib.VerifSpawnSeq.Add(1)
	go func() {
		defer e.wg.Done()
		e.S.Name(name)
		e.S.Gate("client:" + name + "#" + strconv.FormatUint(seq, 10))
		defer func() {
			if r := recover(); r != nil {
				st := string(debug.Stack())
				if where, internal := panicOrigin(st); internal {
					// raised inside the framework by a call this client made
					e.mu.Lock()
					if e.fwPanic == "" {
						e.fwPanic = fmt.Sprintf("%v [raised at%s]", r, where)
					}
					e.mu.Unlock()
					e.S.RequestAbort()
					return
				}
				e.Infra(fmt.Sprintf("panic in harness client %s: %v\n%s", name, r, st))
			}
		}()
		f()
	}()
}

// WaitClients blocks until every client started with Go has returned, or
// until limit of simulated time has passed (then it returns false: some
// client is stuck).
func (e *Env) WaitClients(limit time.Duration) bool {
	done := make(chan struct{})
	go func() { e.wg.Wait(); close(done) }()
	ok := e.WaitChan(done, limit)
	return ok
}

// WaitChan waits for ch (closed or readable) for at most limit of simulated time.
func (e *Env) WaitChan(ch <-chan struct{}, limit time.Duration) bool {
	t := time.NewTimer(limit)
	defer t.Stop()
	select {
	case <-ch:
		e.S.Gate("harness:joined")
		return true
	case <-t.C:
		e.S.Gate("harness:wait-timeout")
		return false
	}
}

// Fail records a violation (the first one wins) and switches the run to
// free-running mode so that it finishes quickly.
func (e *Env) Fail(class, format string, args ...any) {
	e.mu.Lock()
	if e.viol == nil {
		e.viol = &Violation{Class: class, Detail: fmt.Sprintf(format, args...), Step: e.S.Steps()}
	}
	e.mu.Unlock()
	e.S.RequestAbort()
}

// Infra records harness trouble: the run is discarded and the check exits 2.
func (e *Env) Infra(msg string) {
	e.mu.Lock()
	if e.infra == "" {
		e.infra = msg
	}
	e.mu.Unlock()
	e.S.RequestAbort()
}

func (e *Env) Failed() bool {
	e.mu.Lock()
	defer e.mu.Unlock()
	return e.viol != nil || e.infra != "" || e.fwPanic != ""
}

// Probe counts that a rare condition was reached.
func (e *Env) Probe(name string) {
	e.mu.Lock()
	e.probes[name]++
	e.mu.Unlock()
}

func (e *Env) ProbeN(name string, n int) {
	if n == 0 {
		return
	}
	e.mu.Lock()
	e.probes[name] += n
	e.mu.Unlock()
}

// Fault counts a fault that was actually injected.
func (e *Env) Fault(kind string) {
	e.mu.Lock()
	e.faults[kind]++
	e.mu.Unlock()
}

// Logf appends to the logical event log of the run (never draws, never reads
// a real clock).
func (e *Env) Logf(format string, args ...any) {
	line := fmt.Sprintf("%d|", e.S.Steps()) + fmt.Sprintf(format, args...)
	e.mu.Lock()
	if e.viol != nil || e.infra != "" {
		// the run is being torn down (all scheduling points are open, goroutines run
		// in parallel): what happens now is not part of the recorded history
		e.mu.Unlock()
		return
	}
	h := e.ehash
	for i := 0; i < len(line); i++ {
		h ^= uint64(line[i])
		h *= 0x100000001b3
	}
	e.ehash = h
	if len(e.events) < 20000 {
		e.events = append(e.events, line)
	}
	e.mu.Unlock()
}

// RunBubble executes body as the main task of one simulated run inside a
// testing/synctest bubble under the seeded scheduler.
func RunBubble(t *testing.T, spec SchedSpec, seed uint64, body func(e *Env)) (res Result) {
	installHooks()
	lib.VerifResetPools()
	verifResetPools() // every sync.Pool of the process (patched sync package, see overlay/gen.py)
	lib.VerifSpawnSeq.Store(0)
	// no garbage collection inside a run: sync.Pool contents (buffer reuse, and with it the
	// number of reads a frame needs) must not depend on when the collector happens to run
	gcOld := debug.SetGCPercent(-1)
	defer debug.SetGCPercent(gcOld)
	var env *Env
	var s *Sched
	mainDone := false
	finish := func() {
		if s == nil {
			return
		}
		res.Steps = s.steps
		res.SchedHash = s.hash
		res.Decisions = s.decisionIDs
		res.Trace = s.trace
		res.Passthrough = s.passthrough
		res.OverBudget = s.overBudget
		res.Labels = s.labelCount
		res.Tasks = s.nextID
		if env != nil {
			env.mu.Lock()
			res.Violation = env.viol
			res.Infra = env.infra
			res.FrameworkPanic = env.fwPanic
			res.Probes = env.probes
			res.Faults = env.faults
			res.Events = env.events
			res.EventHash = env.ehash
			env.mu.Unlock()
		}
	}
	setMapSeed(Mix(seed, 0x3a95))
	lib.VerifUniq = Mix(seed, 0x11d)&((1<<60)-1) | 1<<40
	defer func() {
		clearMapSeed()
		lib.VerifDial, lib.VerifListen = nil, nil
		curSched.Store(nil)
		if r := recover(); r != nil {
			msg := fmt.Sprint(r)
			finish()
			if strings.Contains(msg, "deadlock") {
				buf := make([]byte, 1<<18)
				n := runtime.Stack(buf, true)
				msg += "\n" + blockedSummary(string(buf[:n]))
				res.Deadlock = msg
				if !mainDone && res.Violation == nil && res.Infra == "" {
					res.Deadlock = "main task never finished: " + msg
				}
			} else {
				res.Infra = "panic escaped the bubble: " + msg
			}
		}
	}()
	synctest.Test(t, func(t *testing.T) {
		s = newSched(spec, &Progress)
		env = &Env{T: t, S: s, R: NewRand(Mix(seed, 0xe11f)), probes: map[string]int{}, faults: map[string]int{},
			ehash: 0xcbf29ce484222325, t0: time.Now()}
		curSched.Store(s)
		env.SetSimLimit(6 * time.Hour)
		go func() {
			s.Name("main")
			s.Gate("main:start")
			defer close(s.done)
			defer func() {
				if r := recover(); r != nil {
					st := string(debug.Stack())
					if where, internal := panicOrigin(st); internal {
						env.mu.Lock()
						if env.fwPanic == "" {
							env.fwPanic = fmt.Sprintf("%v [raised at%s]", r, where)
						}
						env.mu.Unlock()
						env.S.RequestAbort()
						return
					}
					env.Infra(fmt.Sprintf("panic in workload: %v\n%s", r, st))
				}
			}()
			body(env)
			// everything the run started must be able to finish on its own once the main
			// task returns: cut the simulated network and let pending deadlines expire
			for _, f := range env.cleanup {
				f()
			}
			time.Sleep(15 * time.Second)
		}()
		s.loop()
		s.Abort()
		<-s.done
		mainDone = true
		env.limit.Stop()
		res.SimTime = time.Since(env.t0)
	})
	finish()
	return res
}

// blockedSummary keeps, for every goroutine of a bubble, its header and the first frames.
func blockedSummary(dump string) string {
	var out []string
	for _, g := range strings.Split(dump, "\n\n") {
		if !strings.Contains(g, "synctest bubble") {
			continue
		}
		lines := strings.Split(g, "\n")
		if len(lines) > 7 {
			lines = lines[:7]
		}
		out = append(out, strings.Join(lines, " | "))
		if len(out) > 12 {
			break
		}
	}
	return strings.Join(out, "\n")
}
