package simkit

import (
	"crypto/ed25519"
	crand "crypto/rand"
	"crypto/tls"
	"crypto/x509"
	"crypto/x509/pkix"
	"fmt"
	"io"
	"math/big"
	"net"
	"os"
	"strconv"
	"strings"
	"sync"
	"time"

	"ergo.services/ergo/gen"
	"ergo.services/ergo/lib"
	"ergo.services/ergo/net/edf"
	"ergo.services/ergo/net/handshake"
)

// SimNet is a simulated TCP network: connections are pairs of byte pipes whose
// delivery (segmentation, latency, stalls, cuts) is decided by the run's PRNG
// and whose delivery tasks are scheduled by the seeded scheduler.
type SimNet struct {
	e   *Env
	rng *Rand
	mu  sync.Mutex

	listeners map[string]*simListener
	links     []*Link
	refuse    map[string]bool // host -> dials refused
	registry  map[gen.Atom][]gen.Route

	// configuration (drawn by the workload)
	MinLatency time.Duration
	Jitter     time.Duration
	// Skew[i] multiplies the latency of the i-th link created (pooled links skew)
	Skew []int
	// Segment: 0 = deliver everything available at once, 1 = random cuts
	Segment int
	// OnLink is called (without locks held) when a link is created
	OnLink func(l *Link)
	// OnDeliver is called (without locks held) after bytes were handed to the reading end of a
	// link: dir 0 = dialler to acceptor
	OnDeliver func(l *Link, dir int, n int)
	// Tap, if set, sees every chunk written by an endpoint (side 0 = dialer)
	Tap func(l *Link, side int, b []byte)

	nextEphemeral int
	started       int
	equalCreation bool
}

type simAddr string

func (a simAddr) Network() string { return "tcp" }
func (a simAddr) String() string  { return string(a) }

func NewSimNet(e *Env) *SimNet {
	sn := &SimNet{e: e, rng: e.R.Derive("simnet"), listeners: map[string]*simListener{}, refuse: map[string]bool{},
		registry: map[gen.Atom][]gen.Route{}, MinLatency: 100 * time.Microsecond, Jitter: 100 * time.Microsecond, nextEphemeral: 40000}
	lib.VerifDial = sn.Dial
	lib.VerifListen = sn.Listen
	e.OnCleanup(sn.Shutdown)
	return sn
}

// ---- listener ----

type simListener struct {
	sn     *SimNet
	addr   string
	queue  chan *endpoint
	closed chan struct{}
	once   sync.Once
}

func (sn *SimNet) Listen(network, addr string) (net.Listener, error) {
	sn.mu.Lock()
	defer sn.mu.Unlock()
	if _, taken := sn.listeners[addr]; taken {
		return nil, fmt.Errorf("listen %s: address already in use", addr)
	}
	l := &simListener{sn: sn, addr: addr, queue: make(chan *endpoint, 64), closed: make(chan struct{})}
	sn.listeners[addr] = l
	return l, nil
}

func (l *simListener) Accept() (net.Conn, error) {
	select {
	case ep := <-l.queue:
		l.sn.e.S.Gate("simnet:accept")
		return ep, nil
	case <-l.closed:
		return nil, io.EOF
	}
}

func (l *simListener) Close() error {
	l.once.Do(func() {
		close(l.closed)
		l.sn.mu.Lock()
		delete(l.sn.listeners, l.addr)
		l.sn.mu.Unlock()
	})
	return nil
}

func (l *simListener) Addr() net.Addr { return simAddr(l.addr) }

// ---- link ----

type direction struct {
	inflight []byte
	wake     chan struct{}
	fin      bool // sender closed: deliver what is in flight, then EOF
}

// Link is one simulated TCP connection.
type Link struct {
	ID         int
	ServerAddr string
	sn         *SimNet
	mu         sync.Mutex
	dir        [2]direction // dir[0]: dialer -> acceptor, dir[1]: acceptor -> dialer
	ep         [2]*endpoint
	cut        bool
	black      bool // half-open: whatever is written vanishes, a close is not propagated
	stallUntil time.Time
	latMul     int
	// statistics
	Chunks    int
	SplitRead int
}

type endpoint struct {
	link     *Link
	side     int
	rbuf     []byte
	rch      chan struct{}
	deadline time.Time
	closed   bool // closed locally
	eof      bool // peer closed and everything delivered
	reset    bool // connection cut
	local    simAddr
	remote   simAddr
}

func hostOf(addr string) string {
	if i := strings.LastIndex(addr, ":"); i >= 0 {
		return addr[:i]
	}
	return addr
}

func (sn *SimNet) Dial(network, addr string) (net.Conn, error) {
	sn.mu.Lock()
	l := sn.listeners[addr]
	refused := sn.refuse[hostOf(addr)]
	if l == nil || refused {
		sn.mu.Unlock()
		sn.e.Fault("dial-refused")
		return nil, fmt.Errorf("dial tcp %s: connect: connection refused", addr)
	}
	sn.nextEphemeral++
	id := len(sn.links)
	lk := &Link{ID: id, ServerAddr: addr, sn: sn, latMul: 1}
	if id < len(sn.Skew) && sn.Skew[id] > 0 {
		lk.latMul = sn.Skew[id]
	}
	caddr := simAddr(fmt.Sprintf("client:%d", sn.nextEphemeral))
	lk.ep[0] = &endpoint{link: lk, side: 0, rch: make(chan struct{}, 1), local: caddr, remote: simAddr(addr)}
	lk.ep[1] = &endpoint{link: lk, side: 1, rch: make(chan struct{}, 1), local: simAddr(addr), remote: caddr}
	lk.dir[0].wake = make(chan struct{}, 1)
	lk.dir[1].wake = make(chan struct{}, 1)
	sn.links = append(sn.links, lk)
	onLink := sn.OnLink
	sn.mu.Unlock()
	go lk.deliver(0, lib.VerifSpawnSeq.Add(1))
	go lk.deliver(1, lib.VerifSpawnSeq.Add(1))
	select {
	case l.queue <- lk.ep[1]:
	default:
		return nil, fmt.Errorf("dial tcp %s: accept queue full", addr)
	}
	if onLink != nil {
		onLink(lk)
	}
	if netlog {
		sn.e.Logf("net: link %d dialled to %s", lk.ID, addr)
	}
	return lk.ep[0], nil
}

// deliver moves bytes of one direction from "in flight" to the reader.
func (lk *Link) deliver(d int, spawnSeq uint64) {
	sn := lk.sn
	sn.e.S.Gate("simnet:deliver-start#" + strconv.FormatUint(spawnSeq, 10))
	dir := &lk.dir[d]
	rd := lk.ep[1-d]
	for {
		lk.mu.Lock()
		if lk.black {
			dir.inflight = dir.inflight[:0]
		}
		n := len(dir.inflight)
		fin, cut, black := dir.fin, lk.cut, lk.black
		lk.mu.Unlock()
		if cut {
			return
		}
		if n == 0 {
			if fin && black {
				return // the peer never learns that this end was closed
			}
			if fin {
				lk.mu.Lock()
				rd.eof = true
				lk.mu.Unlock()
				wakeup(rd.rch)
				return
			}
			<-dir.wake
			sn.e.S.Gate("simnet:deliver-wake")
			continue
		}
		sn.mu.Lock()
		lat := sn.MinLatency
		if sn.Jitter > 0 {
			lat += time.Duration(sn.rng.Intn(int(sn.Jitter) + 1))
		}
		sn.mu.Unlock()
		lat *= time.Duration(lk.latMul)
		lk.mu.Lock()
		if st := time.Until(lk.stallUntil); st > 0 {
			lat += st
		}
		lk.mu.Unlock()
		// one propagation delay for everything that is in flight now; the segments of
		// that burst then arrive back to back (each at its own scheduling point)
		time.Sleep(lat)
		lk.mu.Lock()
		burst := len(dir.inflight)
		lk.mu.Unlock()
		for burst > 0 {
			sn.e.S.Gate("simnet:deliver")
			lk.mu.Lock()
			if lk.cut {
				lk.mu.Unlock()
				return
			}
			if lk.black {
				dir.inflight = dir.inflight[:0]
				lk.mu.Unlock()
				break
			}
			k := burst
			sn.mu.Lock()
			if sn.Segment != 0 && burst > 1 {
				switch sn.rng.Intn(8) {
				case 0:
					k = 1
				case 1:
					k = 1 + sn.rng.Intn(min(burst, 9))
				case 2:
					k = 1 + sn.rng.Intn(min(burst, 64))
				case 3, 4:
					k = 1 + sn.rng.Intn(burst)
				}
			}
			sn.mu.Unlock()
			if k < burst {
				lk.SplitRead++
			}
			if k > len(dir.inflight) {
				k = len(dir.inflight)
				burst = k
			}
			lk.Chunks++
			rd.rbuf = append(rd.rbuf, dir.inflight[:k]...)
			dir.inflight = append(dir.inflight[:0], dir.inflight[k:]...)
			burst -= k
			lk.mu.Unlock()
			wakeup(rd.rch)
			sn.mu.Lock()
			od := sn.OnDeliver
			sn.mu.Unlock()
			if od != nil {
				od(lk, d, k)
			}
		}
	}
}

func wakeup(ch chan struct{}) {
	select {
	case ch <- struct{}{}:
	default:
	}
}

type timeoutError struct{}

func (timeoutError) Error() string   { return "i/o timeout" }
func (timeoutError) Timeout() bool   { return true }
func (timeoutError) Temporary() bool { return true }
func (timeoutError) Unwrap() error   { return os.ErrDeadlineExceeded }

func (ep *endpoint) Read(b []byte) (int, error) {
	for {
		lk := ep.link
		lk.mu.Lock()
		switch {
		case ep.closed:
			lk.mu.Unlock()
			return 0, net.ErrClosed
		case len(ep.rbuf) > 0:
			n := copy(b, ep.rbuf)
			ep.rbuf = append(ep.rbuf[:0], ep.rbuf[n:]...)
			lk.mu.Unlock()
			return n, nil
		case ep.reset:
			lk.mu.Unlock()
			return 0, fmt.Errorf("read tcp %s: connection reset by peer", ep.local)
		case ep.eof:
			lk.mu.Unlock()
			return 0, io.EOF
		}
		dl := ep.deadline
		lk.mu.Unlock()
		if dl.IsZero() {
			<-ep.rch
		} else {
			d := time.Until(dl)
			if d <= 0 {
				return 0, timeoutError{}
			}
			t := time.NewTimer(d)
			select {
			case <-ep.rch:
				t.Stop()
			case <-t.C:
			}
		}
		lk.sn.e.S.Gate("simnet:read")
	}
}

// Write never blocks and never parks (it is called with locks held).
func (ep *endpoint) Write(b []byte) (int, error) {
	lk := ep.link
	lk.mu.Lock()
	if ep.closed {
		lk.mu.Unlock()
		return 0, net.ErrClosed
	}
	if lk.cut || ep.reset {
		lk.mu.Unlock()
		return 0, fmt.Errorf("write tcp %s: broken pipe", ep.local)
	}
	d := &lk.dir[ep.side]
	d.inflight = append(d.inflight, b...)
	tap := lk.sn.Tap
	lk.mu.Unlock()
	if tap != nil {
		tap(lk, ep.side, append([]byte(nil), b...))
	}
	wakeup(d.wake)
	return len(b), nil
}

func (ep *endpoint) Close() error {
	lk := ep.link
	lk.mu.Lock()
	if ep.closed {
		lk.mu.Unlock()
		return nil
	}
	ep.closed = true
	if netlog {
		lk.sn.e.Logf("net: link %d closed by side %d", lk.ID, ep.side)
	}
	d := &lk.dir[ep.side]
	d.fin = true
	// the peer's writes now fail, its reads see what is already delivered and then EOF
	lk.mu.Unlock()
	wakeup(d.wake)
	wakeup(ep.rch)
	return nil
}

func (ep *endpoint) LocalAddr() net.Addr  { return ep.local }
func (ep *endpoint) RemoteAddr() net.Addr { return ep.remote }
func (ep *endpoint) SetDeadline(t time.Time) error {
	return ep.SetReadDeadline(t)
}
func (ep *endpoint) SetReadDeadline(t time.Time) error {
	ep.link.mu.Lock()
	ep.deadline = t
	ep.link.mu.Unlock()
	wakeup(ep.rch)
	return nil
}
func (ep *endpoint) SetWriteDeadline(t time.Time) error { return nil }

// ---- faults ----

// Cut severs a link: bytes in flight are lost, both readers see a reset.
func (lk *Link) Cut() {
	lk.mu.Lock()
	if lk.cut {
		lk.mu.Unlock()
		return
	}
	lk.cut = true
	lk.ep[0].reset = true
	lk.ep[1].reset = true
	lk.dir[0].inflight, lk.dir[1].inflight = nil, nil
	lk.mu.Unlock()
	lk.sn.e.Fault("link-cut")
	wakeup(lk.ep[0].rch)
	wakeup(lk.ep[1].rch)
	wakeup(lk.dir[0].wake)
	wakeup(lk.dir[1].wake)
}

// Stall delays everything in flight on this link by d.
func (lk *Link) Stall(d time.Duration) {
	lk.mu.Lock()
	lk.stallUntil = time.Now().Add(d)
	lk.mu.Unlock()
	lk.sn.e.Fault("link-stall")
}

func (lk *Link) IsCut() bool {
	lk.mu.Lock()
	defer lk.mu.Unlock()
	return lk.cut
}

// Inject writes raw bytes towards one side as if the other side had sent them.
func (lk *Link) Inject(toSide int, b []byte) {
	lk.mu.Lock()
	d := &lk.dir[1-toSide]
	d.inflight = append(d.inflight, b...)
	lk.mu.Unlock()
	wakeup(d.wake)
}

// Links returns every link created so far.
func (sn *SimNet) Links() []*Link {
	sn.mu.Lock()
	defer sn.mu.Unlock()
	return append([]*Link(nil), sn.links...)
}

// LiveLinks returns the links that are not cut and not closed by both sides.
func (sn *SimNet) LiveLinks() []*Link {
	var out []*Link
	for _, l := range sn.Links() {
		l.mu.Lock()
		ok := !l.cut && !(l.ep[0].closed && l.ep[1].closed)
		l.mu.Unlock()
		if ok {
			out = append(out, l)
		}
	}
	return out
}

// Blackhole makes the link half-open: bytes written by either end from now on are dropped
// silently and the close of one end is not reported to the other (power loss, silent partition).
func (l *Link) Blackhole() {
	l.mu.Lock()
	l.black = true
	l.dir[0].inflight = l.dir[0].inflight[:0]
	l.dir[1].inflight = l.dir[1].inflight[:0]
	l.mu.Unlock()
	l.sn.e.Fault("link-blackholed")
}

// BlackholeAll makes every live link half-open.
func (sn *SimNet) BlackholeAll() int {
	n := 0
	for _, l := range sn.LiveLinks() {
		l.Blackhole()
		n++
	}
	return n
}

// CutAll cuts every live link (whole-connection loss).
func (sn *SimNet) CutAll() int {
	n := 0
	for _, l := range sn.LiveLinks() {
		l.Cut()
		n++
	}
	return n
}

// Shutdown cuts every link and closes every listener (end of the run).
func (sn *SimNet) Shutdown() {
	for _, l := range sn.Links() {
		l.Cut()
	}
	sn.mu.Lock()
	ls := make([]*simListener, 0, len(sn.listeners))
	for _, l := range sn.listeners {
		ls = append(ls, l)
	}
	sn.mu.Unlock()
	for _, l := range ls {
		l.Close()
	}
}

// Refuse makes dials to the given host fail (or succeed again).
func (sn *SimNet) Refuse(host string, on bool) {
	sn.mu.Lock()
	sn.refuse[host] = on
	sn.mu.Unlock()
	if on {
		sn.e.Fault("partition")
	} else {
		sn.e.Fault("heal")
	}
}

// ---- registrar stub ----

type simRegistrar struct {
	sn   *SimNet
	node gen.Atom
}

func (sn *SimNet) Registrar() gen.Registrar { return &simRegistrar{sn: sn} }

func (r *simRegistrar) Register(node gen.NodeRegistrar, routes gen.RegisterRoutes) (gen.StaticRoutes, error) {
	r.node = node.Name()
	r.sn.mu.Lock()
	r.sn.registry[r.node] = append([]gen.Route(nil), routes.Routes...)
	r.sn.mu.Unlock()
	return gen.StaticRoutes{}, nil
}
func (r *simRegistrar) Resolver() gen.Resolver { return r }
func (r *simRegistrar) Resolve(name gen.Atom) ([]gen.Route, error) {
	r.sn.mu.Lock()
	defer r.sn.mu.Unlock()
	rt := r.sn.registry[name]
	if len(rt) == 0 {
		return nil, gen.ErrNoRoute
	}
	return append([]gen.Route(nil), rt...), nil
}
func (r *simRegistrar) ResolveProxy(name gen.Atom) ([]gen.ProxyRoute, error) {
	return nil, gen.ErrNoRoute
}
func (r *simRegistrar) ResolveApplication(name gen.Atom) ([]gen.ApplicationRoute, error) {
	return nil, gen.ErrNoRoute
}
func (r *simRegistrar) RegisterProxy(to gen.Atom) error                           { return gen.ErrUnsupported }
func (r *simRegistrar) UnregisterProxy(to gen.Atom) error                         { return gen.ErrUnsupported }
func (r *simRegistrar) RegisterApplicationRoute(route gen.ApplicationRoute) error { return nil }
func (r *simRegistrar) UnregisterApplicationRoute(name gen.Atom) error            { return nil }
func (r *simRegistrar) Nodes() ([]gen.Atom, error)                                { return nil, gen.ErrUnsupported }
func (r *simRegistrar) Config(items ...string) (map[string]any, error) {
	return nil, gen.ErrUnsupported
}
func (r *simRegistrar) ConfigItem(item string) (any, error) { return nil, gen.ErrUnsupported }
func (r *simRegistrar) Event() (gen.Event, error)           { return gen.Event{}, gen.ErrUnsupported }
func (r *simRegistrar) Info() gen.RegistrarInfo {
	return gen.RegistrarInfo{Server: "simnet", Version: r.Version()}
}
func (r *simRegistrar) Terminate() {
	r.sn.mu.Lock()
	delete(r.sn.registry, r.node)
	r.sn.mu.Unlock()
}
func (r *simRegistrar) Version() gen.Version {
	return gen.Version{Name: "simreg", Release: "1", License: gen.LicenseMIT}
}

// NetNodeOptions describes one networked node of a simulated run.
type NetNodeOptions struct {
	Name           string // "a@h1"
	Cookie         string
	AcceptorCookie string
	PoolSize       int
	MaxMessageSize int
	Port           uint16
	Flags          gen.NetworkFlags
	Mod            func(o *gen.NodeOptions)
	// SameSecond: do not let simulated time pass before this node starts
	SameSecond bool
	// TLSPort (> 0): a second acceptor on this port that speaks TLS (self-signed Ed25519 certificate)
	TLSPort uint16
}

// StartNetNode starts a real node with networking enabled over the simulated network.
func StartNetNode(e *Env, sn *SimNet, o NetNodeOptions) gen.Node {
	if o.Port == 0 {
		o.Port = 15000
	}
	host := o.Name[strings.Index(o.Name, "@")+1:]
	// the incarnation number of a node ("creation") is its start time in seconds: nodes of one run
	// must not all start within the same simulated second, or every mix-up between the local and
	// the peer's creation goes unnoticed. One run in four keeps them equal.
	sn.mu.Lock()
	sn.started++
	k, equal := sn.started, sn.equalCreation
	if k == 1 {
		sn.equalCreation = sn.rng.Intn(4) == 0
		equal = sn.equalCreation
	}
	sn.mu.Unlock()
	if k > 1 && !equal && !o.SameSecond {
		e.Sleep(time.Duration(1000+sn.rng.Intn(2500)) * time.Millisecond)
		e.Probe("nodes-with-different-creation")
	}
	return StartLocalNode(e, o.Name, func(no *gen.NodeOptions) {
		no.Network.Mode = gen.NetworkModeEnabled
		no.Network.Cookie = o.Cookie
		no.Network.Registrar = sn.Registrar()
		no.Network.MaxMessageSize = o.MaxMessageSize
		no.Network.Flags = o.Flags
		ps := o.PoolSize
		if ps < 1 {
			ps = 1
		}
		no.Network.Handshake = handshake.Create(handshake.Options{PoolSize: ps})
		no.Network.Acceptors = []gen.AcceptorOptions{{Host: host, Port: o.Port, PortRange: o.Port, Cookie: o.AcceptorCookie, MaxMessageSize: o.MaxMessageSize}}
		no.Network.InsecureSkipVerify = true
		if o.TLSPort > 0 {
			no.Network.Acceptors = append(no.Network.Acceptors, gen.AcceptorOptions{Host: host, Port: o.TLSPort, PortRange: o.TLSPort,
				Cookie: o.AcceptorCookie, MaxMessageSize: o.MaxMessageSize, CertManager: gen.CreateCertManager(SimCert())})
		}
		if o.Mod != nil {
			o.Mod(no)
		}
	})
}

// SetOnDeliver installs (or removes) the delivery callback.
func (sn *SimNet) SetOnDeliver(f func(l *Link, dir int, n int)) {
	sn.mu.Lock()
	sn.OnDeliver = f
	sn.mu.Unlock()
}

// SetLatency changes the propagation delay of every link from now on.
func (sn *SimNet) SetLatency(min, jitter time.Duration) {
	sn.mu.Lock()
	sn.MinLatency, sn.Jitter = min, jitter
	sn.mu.Unlock()
}

// netlog (VERIF_NETLOG=1): link events in the history of a run, for debugging replays
var netlog = os.Getenv("VERIF_NETLOG") != ""

var simCert struct {
	once sync.Once
	cert tls.Certificate
}

// SimCert returns the process-wide self-signed certificate of simulated TLS acceptors. Ed25519 and
// a fixed serial number: every field of the TLS handshake has the same length in every run, so the
// number of bytes on the simulated wire (which drives segmentation) does not depend on the key.
func SimCert() tls.Certificate {
	simCert.once.Do(func() {
		pub, priv, err := ed25519.GenerateKey(crand.Reader)
		if err != nil {
			panic(err)
		}
		tmpl := x509.Certificate{
			SerialNumber:          big.NewInt(0x5eed5eed),
			Subject:               pkix.Name{Organization: []string{"verifsim"}},
			NotBefore:             time.Date(1999, 1, 1, 0, 0, 0, 0, time.UTC),
			NotAfter:              time.Date(2199, 1, 1, 0, 0, 0, 0, time.UTC),
			KeyUsage:              x509.KeyUsageDigitalSignature | x509.KeyUsageCertSign,
			ExtKeyUsage:           []x509.ExtKeyUsage{x509.ExtKeyUsageServerAuth},
			BasicConstraintsValid: true,
			IsCA:                  true,
			DNSNames:              []string{"h1", "h2", "h3"},
		}
		der, err := x509.CreateCertificate(crand.Reader, &tmpl, &tmpl, pub, priv)
		if err != nil {
			panic(err)
		}
		simCert.cert = tls.Certificate{Certificate: [][]byte{der}, PrivateKey: priv}
	})
	return simCert.cert
}

// The name of a node is added to a process-wide atom cache (edf.RegisterAtom) when the node starts,
// and the handshake of every later connection carries that cache: a name first used in the middle
// of a run would make the first run of a process differ from all later ones - and a run found in a
// worker that has executed other cases before (say with a local node "c17@sim") would not replay in a
// fresh process. StartLocalNode refuses names that are not listed here.
var knownNodeNames = map[string]bool{}

func init() {
	for _, n := range []gen.Atom{"a@h1", "b@h2", "c@h3", "d@h4", "evil@h9",
		"a@sim", "c02@sim", "c03@sim", "c04@sim", "c06@sim", "c07@sim", "c10@sim", "c17@sim", "c19@sim", "c20@sim", "sup@sim", "t@sim"} {
		edf.RegisterAtom(n)
		knownNodeNames[string(n)] = true
	}
}
