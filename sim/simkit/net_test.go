package simkit

import (
	"fmt"
	"testing"
	"time"

	"ergo.services/ergo/gen"
)

func netRun(t *testing.T, seed uint64) (Result, []int) {
	var got []int
	spec := SchedSpec{Mode: "random", Seed: seed}
	res := RunBubble(t, spec, seed, func(e *Env) {
		sn := NewSimNet(e)
		sn.Segment = 1
		a := StartNetNode(e, sn, NetNodeOptions{Name: "a@h1", Cookie: "c", PoolSize: 2})
		b := StartNetNode(e, sn, NetNodeOptions{Name: "b@h2", Cookie: "c", PoolSize: 2})
		if a == nil || b == nil {
			return
		}
		pid, err := b.SpawnRegister("rcv", func() gen.ProcessBehavior { return &smokeActor{} }, gen.ProcessOptions{}, &got)
		if err != nil {
			e.Infra(err.Error())
			return
		}
		_ = pid
		for i := 0; i < 5; i++ {
			if err := a.Send(gen.ProcessID{Name: "rcv", Node: "b@h2"}, i); err != nil {
				e.Infra("send: " + err.Error())
				break
			}
		}
		e.Settle(5 * time.Second)
		e.Logf("links=%d", len(sn.Links()))
		StopNode(e, a, true, time.Minute)
		StopNode(e, b, true, time.Minute)
	})
	return res, got
}

func TestNetSmoke(t *testing.T) {
	start := time.Now()
	for seed := uint64(1); seed <= 20; seed++ {
		r1, g1 := netRun(t, seed)
		r2, g2 := netRun(t, seed)
		if r1.Infra != "" || r1.Deadlock != "" {
			t.Fatalf("seed %d: infra %q deadlock %q events %v", seed, r1.Infra, r1.Deadlock, r1.Events)
		}
		if len(g1) != 5 {
			t.Fatalf("seed %d: got %v events %v", seed, g1, r1.Events)
		}
		if r1.SchedHash != r2.SchedHash || fmt.Sprint(g1) != fmt.Sprint(g2) {
			t.Fatalf("seed %d nondeterministic %v %v steps %d %d", seed, g1, g2, r1.Steps, r2.Steps)
		}
		if seed == 1 {
			t.Logf("steps %d events %v", r1.Steps, r1.Events)
		}
	}
	t.Logf("wall %v", time.Since(start))
}
