package simkit

import (
	"fmt"
	"testing"
)

func TestDiff(t *testing.T) {
	r1, _ := smokeRun(t, "random", 1)
	r2, _ := smokeRun(t, "random", 1)
	r3, _ := smokeRun(t, "random", 1)
	fmt.Println(len(r1.Trace), len(r2.Trace), len(r3.Trace), r2.SchedHash == r3.SchedHash)
	for i := 0; i < len(r1.Trace) && i < len(r2.Trace); i++ {
		if r1.Trace[i] != r2.Trace[i] {
			for j := max(0, i-5); j < i+8 && j < len(r1.Trace) && j < len(r2.Trace); j++ {
				fmt.Println(j, r1.Trace[j], r2.Trace[j])
			}
			break
		}
	}
}
