package simkit

import (
	"fmt"
	"testing"
	"time"
)

func TestSelectDet(t *testing.T) {
	run := func(seed uint64) string {
		out := ""
		RunBubble(t, SchedSpec{Mode: "random", Seed: seed}, seed, func(e *Env) {
			for i := 0; i < 20; i++ {
				a := make(chan struct{})
				close(a)
				select {
				case <-a:
					out += "a"
				case <-time.After(0):
					out += "t"
				}
			}
		})
		return out
	}
	for s := uint64(1); s < 6; s++ {
		x, y := run(s), run(s)
		fmt.Println(s, x, y, x == y)
	}
}
