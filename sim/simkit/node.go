package simkit

import (
	"time"

	"ergo.services/ergo/gen"
	"ergo.services/ergo/node"
)

// Version used for simulated nodes.
var SimVersion = gen.Version{Name: "verifsim", Release: "0", License: gen.LicenseMIT}

// StartLocalNode starts a real node (node.Start) with networking disabled and
// no default logger inside the current bubble.
func StartLocalNode(e *Env, name string, mod func(o *gen.NodeOptions)) gen.Node {
	var o gen.NodeOptions
	o.Network.Mode = gen.NetworkModeDisabled
	o.Log.DefaultLogger.Disable = true
	o.Log.Level = gen.LogLevelError
	o.Version = SimVersion
	if mod != nil {
		mod(&o)
	}
	n, err := node.Start(gen.Atom(name), o, SimVersion)
	if err != nil {
		e.Infra("node.Start: " + err.Error())
		return nil
	}
	return n
}

// StopNode tears a node down. graceful=false kills every process. It returns
// false if a graceful stop did not return within the given simulated time.
func StopNode(e *Env, n gen.Node, graceful bool, limit time.Duration) bool {
	if n == nil {
		return true
	}
	n.SetCTRLC(false)
	if !graceful {
		n.StopForce()
		return true
	}
	done := make(chan struct{})
	go func() {
		e.S.Gate("harness:stop")
		n.Stop()
		close(done)
	}()
	t := time.NewTimer(limit)
	defer t.Stop()
	select {
	case <-done:
		e.S.Gate("harness:stopped")
		return true
	case <-t.C:
		e.S.Gate("harness:stop-timeout")
		n.StopForce()
		return false
	}
}
