package simkit

import (
	"fmt"
	"os"
	"runtime/debug"
	"strings"
	"time"

	"ergo.services/ergo/gen"
	"ergo.services/ergo/node"
)

// Version used for simulated nodes.
var SimVersion = gen.Version{Name: "verifsim", Release: "0", License: gen.LicenseMIT}

// StartLocalNode starts a real node (node.Start) with networking disabled and
// no default logger inside the current bubble.
func StartLocalNode(e *Env, name string, mod func(o *gen.NodeOptions)) gen.Node {
	if !knownNodeNames[name] {
		e.Infra("node name " + name + " is not pre-registered in simkit (process-wide atom cache, see simnet.go init)")
		return nil
	}
	var o gen.NodeOptions
	o.Network.Mode = gen.NetworkModeDisabled
	o.Log.DefaultLogger.Disable = true
	o.Log.Level = gen.LogLevelError
	o.Version = SimVersion
	// panics recovered inside the node are logged at Panic level: keep them in the run's history
	o.Log.Loggers = append(o.Log.Loggers, gen.Logger{Name: "simpanic", Logger: &panicLogger{e: e, node: name}, Filter: []gen.LogLevel{gen.LogLevelPanic}})
	if mod != nil {
		mod(&o)
	}
	if netlog {
		o.Log.Level = gen.LogLevelTrace
		o.Log.Loggers = append(o.Log.Loggers, gen.Logger{Name: "simdebug", Logger: &debugLogger{e: e, node: name}})
	}
	n, err := node.Start(gen.Atom(name), o, SimVersion)
	if err != nil {
		e.Infra("node.Start: " + err.Error())
		return nil
	}
	return n
}

// StopNode tears a node down. graceful=false kills every process. It returns
// false if a graceful stop did not return within the given simulated time.
func StopNode(e *Env, n gen.Node, graceful bool, limit time.Duration) bool {
	if n == nil {
		return true
	}
	n.SetCTRLC(false)
	if !graceful {
		n.StopForce()
		return true
	}
	done := make(chan struct{})
	go func() {
		e.S.Gate("harness:stop")
		n.Stop()
		close(done)
	}()
	t := time.NewTimer(limit)
	defer t.Stop()
	select {
	case <-done:
		e.S.Gate("harness:stopped")
		return true
	case <-t.C:
		e.S.Gate("harness:stop-timeout")
		n.StopForce()
		return false
	}
}

type panicLogger struct {
	e    *Env
	node string
}

func (l *panicLogger) Log(m gen.MessageLog) {
	l.e.Probe("panic-recovered-in-node")
	// the logger runs in the deferred function of the panicking goroutine: its stack still shows
	// where the panic was raised; keep the repository frames below the panic call
	where, internal := panicOrigin(string(debug.Stack()))
	line := fmt.Sprintf("%s: "+m.Format, append([]any{l.node}, m.Args...)...) + " [raised at" + where + "]"
	l.e.mu.Lock()
	l.e.panics = append(l.e.panics, line)
	if internal {
		l.e.internalPanics = append(l.e.internalPanics, line)
	}
	l.e.mu.Unlock()
	if internal {
		l.e.Probe("panic-raised-by-repository-code")
		if f := os.Getenv("VERIF_DEBUG_PANICS"); f != "" {
			if fh, err := os.OpenFile(f, os.O_APPEND|os.O_CREATE|os.O_WRONLY, 0o644); err == nil {
				fh.WriteString(line + "\n")
				fh.Close()
			}
		}
	}
}
func (l *panicLogger) Terminate() {}

// panicOrigin reads a stack taken in a deferred function of a panicking goroutine: the first frame
// below the panic call outside the Go runtime is the code that panicked - code of the repository
// (internal) or of the harness. where lists the first repository frames.
// repoRoot is where the sources of the system under test live (VERIF_REPO, default /repo).
var repoRoot = func() string {
	r := os.Getenv("VERIF_REPO")
	if r == "" {
		r = "/repo"
	}
	return strings.TrimRight(r, "/") + "/"
}()

func panicOrigin(st string) (where string, internal bool) {
	i := strings.Index(st, "panic(")
	if i < 0 {
		return "", false
	}
	k := 0
	first := true
	for _, ln := range strings.Split(st[i:], "\n") {
		ln = strings.TrimSpace(ln)
		if !strings.HasPrefix(ln, "/") {
			continue // a function line
		}
		repo := strings.HasPrefix(ln, repoRoot) || strings.Contains(ln, "/instr_out/src/")
		if first && !strings.Contains(ln, "/src/runtime/") && !strings.Contains(ln, "/src/sync/") && !strings.Contains(ln, "/src/internal/") {
			first = false
			internal = repo
		}
		if repo {
			if j := strings.Index(ln, " +0x"); j > 0 {
				ln = ln[:j]
			}
			if j := strings.Index(ln, "/instr_out/src/"); j >= 0 {
				ln = ln[j+len("/instr_out/src/"):]
			}
			where += " < " + strings.TrimPrefix(ln, repoRoot)
			if k++; k == 4 {
				break
			}
		}
	}
	return where, internal
}

// Panics returns the panic-level log lines of all simulated nodes of this run.
func (e *Env) Panics() []string {
	e.mu.Lock()
	defer e.mu.Unlock()
	return append([]string(nil), e.panics...)
}

// InternalPanics returns the recovered panics that were raised by code of the repository itself
// (not by a callback of the harness).
func (e *Env) InternalPanics() []string {
	e.mu.Lock()
	defer e.mu.Unlock()
	return append([]string(nil), e.internalPanics...)
}

type debugLogger struct {
	e    *Env
	node string
}

func (l *debugLogger) Log(m gen.MessageLog) {
	if _, ok := m.Source.(gen.MessageLogNetwork); !ok {
		if _, ok := m.Source.(gen.MessageLogNode); !ok {
			return
		}
	}
	s := fmt.Sprintf(m.Format, m.Args...)
	if strings.Contains(s, "connect") || strings.Contains(s, "join") || strings.Contains(s, "handshake") || strings.Contains(s, "link") || strings.Contains(s, "dial") {
		l.e.Logf("log %s: %s", l.node, s)
	}
}
func (l *debugLogger) Terminate() {}
