package simkit

import (
	"testing"
	"time"

	"ergo.services/ergo/gen"
)

func TestRedial(t *testing.T) {
	var got []int
	res := RunBubble(t, SchedSpec{Mode: "sticky", Seed: 3, MaxSteps: 200000}, 3, func(e *Env) {
		sn := NewSimNet(e)
		sn.OnLink = func(l *Link) { e.Logf("link %d created at %v", l.ID, e.Now()) }
		a := StartNetNode(e, sn, NetNodeOptions{Name: "a@h1", Cookie: "c", PoolSize: 2})
		b := StartNetNode(e, sn, NetNodeOptions{Name: "b@h2", Cookie: "c", PoolSize: 2})
		b.SpawnRegister("rcv", func() gen.ProcessBehavior { return &smokeActor{} }, gen.ProcessOptions{}, &got)
		a.Send(gen.ProcessID{Name: "rcv", Node: "b@h2"}, 1)
		e.Settle(2 * time.Second)
		e.Logf("cut link 0")
		sn.Links()[0].Cut()
		e.Settle(50 * time.Millisecond)
		e.Logf("links now %d", len(sn.Links()))
		StopNode(e, a, false, 0)
		StopNode(e, b, false, 0)
	})
	for _, ev := range res.Events {
		t.Log(ev)
	}
	t.Log(res.Steps, res.Infra, res.OverBudget)
}
