package simkit

import _ "unsafe"

// verifMapSeed lives in the patched runtime (see /verif/overlay/gen.py): while
// it is non-zero every Go map and sync.Map created or iterated uses it as its
// hash seed / iteration offset, which makes iteration order a function of the
// run seed instead of the runtime's random source.
//
//go:linkname verifMapSeed runtime.verifMapSeed
var verifMapSeed uint64

//go:linkname verifSelectSeq runtime.verifSelectSeq
var verifSelectSeq uint64

//go:linkname verifPools sync.verifPools
var verifPools bool

func init() { verifPools = true }

//go:linkname verifResetPools sync.verifResetPools
func verifResetPools()

func setMapSeed(s uint64) {
	verifSelectSeq = 0
	if s == 0 {
		s = 1
	}
	verifMapSeed = s
}

func clearMapSeed() { verifMapSeed = 0 }
