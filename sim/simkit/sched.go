package simkit

import (
	"fmt"
	"runtime"
	"sort"
	"strings"
	"sync"
	"sync/atomic"
	"testing/synctest"
)

// SchedSpec selects how the scheduler picks the next goroutine. It is part of
// a Case and therefore of every replay file.
type SchedSpec struct {
	Mode      string  `json:"mode"`                // random | sticky | pct | replay
	Seed      uint64  `json:"seed"`                // PRNG stream for the scheduler
	PreemptP  float64 `json:"preempt_p,omitempty"` // sticky: probability of a preemption per decision
	Depth     int     `json:"depth,omitempty"`     // pct: number of priority change points
	LenHint   int     `json:"len_hint,omitempty"`  // pct: expected number of decisions
	Decisions []int32 `json:"decisions,omitempty"` // replay: task id per decision, -1 = default policy
	MaxSteps  int     `json:"max_steps,omitempty"` // cap on decisions (0 = default)
	// SkipPrefix: scheduling points whose label starts with one of these are not scheduling points in this run
	SkipPrefix []string `json:"skip_prefix,omitempty"`
}

type task struct {
	id        int
	goid      uint64
	ch        chan struct{}
	lockDepth int
	label     string
	name      string
	prio      uint64
	parked    bool
	spawnSeq  uint64 // creation number given by the creating goroutine (instrumented go statements), 0 = unknown
}

// Decision is one scheduling decision, kept for traces.
type Decision struct {
	Task  int32  `json:"t"`
	Label string `json:"l"`
}

// Sched is the seeded cooperative scheduler of one simulated run.
type Sched struct {
	spec SchedSpec
	rng  *Rand

	mu       sync.Mutex
	tasks    map[uint64]*task
	arrivals []*task
	nextID   int

	parked []*task
	last   *task

	wake chan struct{}
	done chan struct{}

	active   atomic.Bool
	abortReq atomic.Bool

	steps       int
	maxSteps    int
	overBudget  bool
	trace       []Decision
	traceCap    int
	decisionIDs []int32
	hash        uint64
	passthrough int
	changeAt    map[int]bool
	lowPrio     uint64

	labelCount map[string]int

	progress *atomic.Uint64
}

const defaultMaxSteps = 400000

func newSched(spec SchedSpec, progress *atomic.Uint64) *Sched {
	s := &Sched{
		spec:       spec,
		rng:        NewRand(Mix(spec.Seed, 0x5ced)),
		tasks:      map[uint64]*task{},
		wake:       make(chan struct{}, 1),
		done:       make(chan struct{}),
		maxSteps:   spec.MaxSteps,
		traceCap:   100000,
		hash:       0xcbf29ce484222325,
		labelCount: map[string]int{},
		progress:   progress,
		lowPrio:    1 << 20,
	}
	if s.maxSteps <= 0 {
		s.maxSteps = defaultMaxSteps
	}
	if spec.Mode == "pct" {
		s.changeAt = map[int]bool{}
		n := spec.LenHint
		if n < 50 {
			n = 50
		}
		for i := 0; i < spec.Depth; i++ {
			s.changeAt[s.rng.Intn(n)] = true
		}
	}
	s.active.Store(true)
	return s
}

func goid() uint64 {
	var buf [40]byte
	n := runtime.Stack(buf[:], false)
	// "goroutine 123 ["
	var id uint64
	for i := 10; i < n; i++ {
		c := buf[i]
		if c < '0' || c > '9' {
			break
		}
		id = id*10 + uint64(c-'0')
	}
	return id
}

func (s *Sched) cur() *task {
	g := goid()
	s.mu.Lock()
	t := s.tasks[g]
	if t == nil {
		t = &task{id: -1, goid: g, ch: make(chan struct{})}
		s.tasks[g] = t
	}
	s.mu.Unlock()
	return t
}

// Name gives the calling goroutine a logical name (shown in traces).
func (s *Sched) Name(name string) { s.cur().name = name }

// LockDelta is installed as lib.VerifLockHook.
func (s *Sched) LockDelta(d int) {
	if !s.active.Load() {
		return
	}
	t := s.cur()
	t.lockDepth += d
	if t.lockDepth < 0 {
		t.lockDepth = 0
	}
}

// Gate is a scheduling point: the calling goroutine parks until the scheduler
// grants it the right to continue.
func (s *Sched) Gate(label string) {
	if !s.active.Load() {
		return
	}
	for _, p := range s.spec.SkipPrefix {
		if strings.HasPrefix(label, p) {
			return
		}
	}
	t := s.cur()
	if t.lockDepth > 0 {
		s.passthrough++
		return
	}
	if i := strings.IndexByte(label, '#'); i >= 0 {
		// goroutine entry: "site#creation number"
		var n uint64
		for _, c := range label[i+1:] {
			n = n*10 + uint64(c-'0')
		}
		t.spawnSeq = n
		label = label[:i]
	}
	t.label = label
	s.mu.Lock()
	s.arrivals = append(s.arrivals, t)
	s.mu.Unlock()
	select {
	case s.wake <- struct{}{}:
	default:
	}
	<-t.ch
}

func (s *Sched) collect() {
	s.mu.Lock()
	arr := s.arrivals
	s.arrivals = nil
	s.mu.Unlock()
	if len(arr) == 0 {
		return
	}
	// canonical order for tasks seen for the first time in this round
	var fresh []*task
	for _, t := range arr {
		if t.id < 0 {
			fresh = append(fresh, t)
		}
	}
	if len(fresh) > 1 {
		sort.SliceStable(fresh, func(i, j int) bool {
			if fresh[i].label != fresh[j].label {
				return fresh[i].label < fresh[j].label
			}
			if fresh[i].spawnSeq != fresh[j].spawnSeq {
				return fresh[i].spawnSeq < fresh[j].spawnSeq
			}
			return fresh[i].goid < fresh[j].goid
		})
	}
	for _, t := range fresh {
		t.id = s.nextID
		s.nextID++
		if s.spec.Mode == "pct" {
			t.prio = s.lowPrio + 1 + s.rng.Uint64()%(1<<40)
		}
	}
	for _, t := range arr {
		t.parked = true
		s.parked = append(s.parked, t)
	}
	sort.Slice(s.parked, func(i, j int) bool { return s.parked[i].id < s.parked[j].id })
}

func (s *Sched) pick() *task {
	n := len(s.parked)
	sticky := func() *task {
		if s.last != nil && s.last.parked {
			return s.last
		}
		return s.parked[0]
	}
	switch s.spec.Mode {
	case "replay":
		if s.steps < len(s.spec.Decisions) {
			want := s.spec.Decisions[s.steps]
			if want >= 0 {
				for _, t := range s.parked {
					if int32(t.id) == want {
						return t
					}
				}
			}
		}
		return sticky()
	case "sticky":
		if n == 1 || !s.rng.Chance(s.spec.PreemptP) {
			return sticky()
		}
		return s.parked[s.rng.Intn(n)]
	case "pct":
		if s.changeAt[s.steps] && s.last != nil {
			s.lowPrio--
			s.last.prio = s.lowPrio
		}
		best := s.parked[0]
		for _, t := range s.parked[1:] {
			if t.prio > best.prio {
				best = t
			}
		}
		return best
	default: // random
		return s.parked[s.rng.Intn(n)]
	}
}

func (s *Sched) release(t *task) {
	for i, p := range s.parked {
		if p == t {
			s.parked = append(s.parked[:i], s.parked[i+1:]...)
			break
		}
	}
	t.parked = false
	t.ch <- struct{}{}
}

// loop runs on the bubble's root goroutine until the main task is done and
// nothing is parked, or until the run is aborted.
func (s *Sched) loop() {
	for s.active.Load() {
		synctest.Wait()
		if s.abortReq.Load() {
			s.Abort()
			return
		}
		s.collect()
		if len(s.parked) == 0 {
			select {
			case <-s.done:
				// main finished; let whatever timers remain run freely
				synctest.Wait()
				s.collect()
				if len(s.parked) == 0 {
					return
				}
				continue
			default:
			}
			// idle: nothing runnable. Blocking here lets the fake clock jump.
			select {
			case <-s.wake:
			case <-s.done:
			}
			continue
		}
		if s.steps >= s.maxSteps {
			s.overBudget = true
			s.Abort()
			return
		}
		t := s.pick()
		s.steps++
		if s.progress != nil {
			s.progress.Add(1)
		}
		s.decisionIDs = append(s.decisionIDs, int32(t.id))
		if len(s.trace) < s.traceCap {
			s.trace = append(s.trace, Decision{int32(t.id), t.label})
		}
		s.labelCount[t.label]++
		h := s.hash
		h ^= uint64(t.id) + 0x9e37
		h *= 0x100000001b3
		for i := 0; i < len(t.label); i++ {
			h ^= uint64(t.label[i])
			h *= 0x100000001b3
		}
		s.hash = h
		s.last = t
		s.release(t)
	}
}

// Abort switches the run to free-running mode: every gate becomes a no-op
// and all parked goroutines are released.
func (s *Sched) Abort() {
	s.active.Store(false)
	s.mu.Lock()
	arr := s.arrivals
	s.arrivals = nil
	s.mu.Unlock()
	all := append(append([]*task(nil), s.parked...), arr...)
	s.parked = nil
	for _, t := range all {
		t.parked = false
		t := t
		go func() { t.ch <- struct{}{} }()
	}
}

// RequestAbort asks the scheduler to switch to free-running mode at its next
// decision (safe to call from any goroutine of the run).
func (s *Sched) RequestAbort() {
	s.abortReq.Store(true)
	select {
	case s.wake <- struct{}{}:
	default:
	}
}

// Steps is the global event sequence number (number of decisions so far).
func (s *Sched) Steps() int { return s.steps }

func (s *Sched) describe(id int32) string {
	s.mu.Lock()
	defer s.mu.Unlock()
	for _, t := range s.tasks {
		if int32(t.id) == id && t.name != "" {
			return fmt.Sprintf("%d(%s)", id, t.name)
		}
	}
	return fmt.Sprintf("%d", id)
}
