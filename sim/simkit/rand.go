package simkit

// Rand is a small self-contained PRNG (splitmix64 seeding + xoshiro256**), so
// that streams do not depend on the Go release. One Rand = one stream; every
// random choice of a simulated run comes from streams derived from the run
// seed with Derive.
type Rand struct {
	s [4]uint64
	n uint64 // draws made
}

func splitmix(x *uint64) uint64 {
	*x += 0x9e3779b97f4a7c15
	z := *x
	z = (z ^ (z >> 30)) * 0xbf58476d1ce4e5b9
	z = (z ^ (z >> 27)) * 0x94d049bb133111eb
	return z ^ (z >> 31)
}

func NewRand(seed uint64) *Rand {
	r := &Rand{}
	x := seed
	for i := range r.s {
		r.s[i] = splitmix(&x)
	}
	return r
}

// Mix hashes several integers into one seed.
func Mix(vals ...uint64) uint64 {
	h := uint64(0xcbf29ce484222325)
	for _, v := range vals {
		x := v ^ h
		h = splitmix(&x)
	}
	return h
}

func MixString(seed uint64, s string) uint64 {
	h := seed ^ 0xcbf29ce484222325
	for i := 0; i < len(s); i++ {
		h ^= uint64(s[i])
		h *= 0x100000001b3
	}
	return Mix(h)
}

func (r *Rand) Derive(tag string) *Rand {
	return NewRand(MixString(r.Uint64(), tag))
}

func rotl(x uint64, k uint) uint64 { return (x << k) | (x >> (64 - k)) }

func (r *Rand) Uint64() uint64 {
	r.n++
	s := &r.s
	result := rotl(s[1]*5, 7) * 9
	t := s[1] << 17
	s[2] ^= s[0]
	s[3] ^= s[1]
	s[1] ^= s[2]
	s[0] ^= s[3]
	s[2] ^= t
	s[3] = rotl(s[3], 45)
	return result
}

// Intn returns a value in [0,n). n <= 0 yields 0.
func (r *Rand) Intn(n int) int {
	if n <= 1 {
		return 0
	}
	return int(r.Uint64() % uint64(n))
}

// Range returns a value in [lo,hi].
func (r *Rand) Range(lo, hi int) int {
	if hi <= lo {
		return lo
	}
	return lo + r.Intn(hi-lo+1)
}

func (r *Rand) Float() float64 { return float64(r.Uint64()>>11) / float64(1<<53) }

func (r *Rand) Bool() bool { return r.Uint64()&1 == 1 }

// Chance is true with probability p.
func (r *Rand) Chance(p float64) bool { return r.Float() < p }

func (r *Rand) Draws() uint64 { return r.n }

// Pick returns one of the arguments.
func Pick[T any](r *Rand, xs ...T) T { return xs[r.Intn(len(xs))] }

// Shuffle permutes xs in place.
func Shuffle[T any](r *Rand, xs []T) {
	for i := len(xs) - 1; i > 0; i-- {
		j := r.Intn(i + 1)
		xs[i], xs[j] = xs[j], xs[i]
	}
}
